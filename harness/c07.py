"""C07 — genotypes written to VCF/BCF or PGEN read back unchanged."""
from __future__ import annotations

import numpy as np

from . import common as C
from . import gtfiles as GF
from . import gtio
from . import simdata as SD
from .run import Check, Section

_dir = None
FORMATS = [".vcf", ".vcf.gz", ".vcf.gz+idx", ".bcf", ".pgen", ".pgen"]


def setup():
    global _dir
    _dir = C.scratch_dir("c07")
    return _dir


def teardown(_):
    C.rm_tree(_dir)


def gen(rng, tier):
    n = 160 if tier == "quick" else 5000
    for t in range(n):
        fmt = FORMATS[t % len(FORMATS)]
        tail = fmt.startswith(".pgen") and t % 12 in (4, 5)  # a fixed share: 17 / 33 / 34 variants read 16 or 32 at a time
        c = gtio.gen_content(rng, allow_half_missing=not fmt.startswith(".pgen"), many_alleles=0.12, medium=1.0 if tail else 0.1)
        if tail and len(c["variants"]) >= 17:
            k = rng.choice([x for x in (17, 33, 34, 35) if x <= len(c["variants"])])
            c["variants"] = c["variants"][:k]
            c["data"] = [row[:k] for row in c["data"]]
        p = len(c["variants"])
        c["fmt"] = fmt
        c["wchunk"] = rng.choice([None, 1, 2, max(p, 1), p + 2])
        c["rchunk"] = rng.choice([None, 1, 2, max(p, 1), p + 2])
        if p > 16:
            # chunk sizes that leave a short trailing chunk (17 or 33 variants read 16 at a time, …)
            c["rchunk"] = rng.choice([c["rchunk"], 16, 16, 32, p - 1, (p - 1) // 2 + 1]) if not tail else (16 if p < 33 else rng.choice([16, 32]))
            c["wchunk"] = rng.choice([c["wchunk"], 16, p - 1])
        c["reader"] = rng.choice(["Genotypes", "GenotypesVCF"]) if not fmt.startswith(".pgen") else "GenotypesPLINK"
        c["drop_phase_plane"] = rng.random() < 0.1  # a matrix without third plane: all calls phased
        if t == 3 or (tier != "quick" and t % 1000 == 7):
            # a cohort-sized matrix (about 100 000 calls) in which a single heterozygous call is unphased
            ns_, nv_ = 300, 400
            c["samples"] = [f"samp{i}" for i in range(ns_)]
            c["variants"] = [{"id": f"rs{j}", "chrom": "1", "pos": 10 * (j + 1), "alleles": ["A", "C"]} for j in range(nv_)]
            c["data"] = [[[rng.randint(0, 1), rng.randint(0, 1), 1] for _ in range(nv_)] for _ in range(ns_)]
            i_, j_ = rng.randrange(ns_), rng.randrange(nv_)
            c["data"][i_][j_] = [0, 1, 0]
            c["fmt"], c["reader"], c["wchunk"], c["rchunk"], c["drop_phase_plane"], c["stale_index"] = ".vcf", "GenotypesVCF", None, None, False, None
            p = nv_
        c["stale_index"] = None
        r = rng.random()
        if r < (0.15 if fmt.startswith(".pgen") else 0.35) and p > 1 and fmt != ".vcf.gz+idx":
            # records in any order: contigs interleaved, positions not sorted (an unsorted VCF cannot be indexed, but it
            # must still come back as it was written)
            perm = list(range(p))
            while perm == sorted(perm):
                rng.shuffle(perm)
            c["variants"] = [c["variants"][j] for j in perm]
            c["data"] = [[row[j] for j in perm] for row in c["data"]]
        elif r < 0.6 and p > 1 and fmt in (".vcf.gz", ".bcf"):
            # the path held an older, smaller, indexed file before: the index left beside it must not matter
            c["stale_index"] = rng.randint(1, p - 1)
        if len(c["samples"]) > 1 and rng.random() < 0.15:
            # sample IDs that are legal but look like comment / header lines in a .psam file
            c["samples"][rng.randrange(1, len(c["samples"]))] = rng.choice(["#2", "#IID2", "#s"])
        yield c


def inspect_file(path, fmt):
    """what is on disk, through pysam / pgenlib directly"""
    if fmt.startswith(".pgen"):
        import pgenlib

        pvar = [l.rstrip("\n").split("\t") for l in open(str(path)[:-5] + ".pvar") if not l.startswith("##")]
        ci = {h.lstrip("#"): i for i, h in enumerate(pvar[0])}
        vs = [{"id": r[ci["ID"]], "chrom": r[ci["CHROM"]], "pos": int(r[ci["POS"]]), "alleles": [r[ci["REF"]]] + [a for a in r[ci["ALT"]].split(",")]} for r in pvar[1:]]
        psam = open(str(path)[:-5] + ".psam").read().splitlines()
        samples = [l.split("\t")[0] for l in (psam[1:] if psam and psam[0].startswith(("#IID", "#FID")) else psam) if l]  # only the first line is a header: a sample may be called '#2'
        data = [[None] * len(vs) for _ in samples]
        if vs:
            rd = pgenlib.PgenReader(bytes(str(path), "utf8"), pvar=pgenlib.PvarReader(bytes(str(path)[:-5] + ".pvar", "utf8")))
            for j in range(len(vs)):
                al = np.empty(2 * len(samples), dtype=np.int32)
                ph = np.empty(len(samples), dtype=np.uint8)
                rd.read_alleles_and_phasepresent(j, al, ph)
                for i in range(len(samples)):
                    a, b = int(al[2 * i]), int(al[2 * i + 1])
                    data[i][j] = [255 if a < 0 else a, 255 if b < 0 else b, int(ph[i])]
        return {"samples": samples, "variants": vs, "data": data}
    import pysam

    vf = pysam.VariantFile(str(path))
    samples = list(vf.header.samples)
    vs, cols = [], []
    for r in vf:
        vs.append({"id": r.id, "chrom": r.chrom, "pos": r.pos, "alleles": list(r.alleles)})
        cols.append([[255 if a is None else a for a in r.samples[s]["GT"]] + [1 if r.samples[s].phased else 0] for s in samples])
    data = [[cols[j][i] for j in range(len(vs))] for i in range(len(samples))]
    return {"samples": samples, "variants": vs, "data": data}


def impl(case):
    fmt = case["fmt"]
    ext = fmt.split("+")[0]
    path = _dir / ("g.chr1" + ext)  # a per-chromosome style name beside an unrelated older fileset g.*
    for f in _dir.glob("g.*"):
        f.unlink()
    if ext == ".pgen":
        GF.decoy_fileset(_dir / "g")
    content = dict(case)
    if case.get("stale_index"):
        import pysam

        k = case["stale_index"]
        older = dict(case, variants=case["variants"][:k], data=[row[:k] for row in case["data"]])
        gtio.make_obj("GenotypesVCF", path, older).write()
        if ext == ".bcf":
            pysam.tabix_index(str(path), preset="bcf", force=True)  # writes g.bcf.csi
        else:
            pysam.tabix_index(str(path), preset="vcf", force=True)
    g = gtio.make_obj("GenotypesPLINK" if ext == ".pgen" else "GenotypesVCF", path, content, chunk_size=case["wchunk"])
    if case["drop_phase_plane"]:
        g.data = g.data[:, :, :2]
    g.write()
    if fmt == ".vcf.gz+idx":
        import pysam

        pysam.tabix_index(str(path), preset="vcf", force=True)
    disk = inspect_file(path, fmt)
    from haptools import data as D

    if ext == ".pgen":
        r = D.GenotypesPLINK(path, log=SD.silent_log(), chunk_size=case["rchunk"])
    else:
        r = getattr(D, case["reader"])(path, log=SD.silent_log())
    r.read()
    back = gtio.snapshot(r)
    # the streaming iterator yields the same records
    it = getattr(D, "GenotypesPLINK" if ext == ".pgen" else case["reader"])(path, log=SD.silent_log())
    kept = list(it.__iter__())  # collected first, looked at afterwards: a record is the caller's to keep
    recs = [[[int(x) for x in row] for row in np.asarray(rec.data)] for rec in kept]
    obs = {"disk": disk, "read": back, "iter_rows": len(recs)}
    bulk = np.asarray(r.data)
    if recs and bulk.ndim == 3 and bulk.shape[1] == len(recs):
        for j, rec in enumerate(recs):
            col = [[int(x) for x in row] for row in bulk[:, j, :]]
            if [row[: len(col[0])] for row in rec] != [row[: len(rec[0])] for row in col] if rec and col else rec != col:
                obs["iter_differs"] = f"record {j} of the streaming iterator (records collected in a list) holds {rec}; the bulk read holds {col} for that variant"
                break
    if fmt != ".vcf.gz+idx" and not case.get("stale_index") and not case["drop_phase_plane"] and case["variants"]:
        # the reader object used for a second file (as many variants, other IDs and positions): what it
        # holds afterwards is the second file, as a reader that never saw the first one reads it
        path2 = _dir / ("h.chr1" + ext)
        for f in _dir.glob("h.*"):
            f.unlink()
        second = dict(case, variants=[{**v, "id": v["id"] + "x", "pos": v["pos"] + 1000} for v in case["variants"]])
        if True:
            gtio.make_obj("GenotypesPLINK" if ext == ".pgen" else "GenotypesVCF", path2, second, chunk_size=case["wchunk"]).write()
            r.fname = path2
            r.read()
            reused = C.canon(gtio.snapshot(r))
            fresh_r = D.GenotypesPLINK(path2, log=SD.silent_log(), chunk_size=case["rchunk"]) if ext == ".pgen" else getattr(D, case["reader"])(path2, log=SD.silent_log())
            fresh_r.read()
            if reused != C.canon(gtio.snapshot(fresh_r)):
                obs["reused_reader_differs"] = f"a reader that had read {path.name} and was then pointed at {path2.name} holds {str(reused)[:300]}; a new reader of {path2.name} holds {str(C.canon(gtio.snapshot(fresh_r)))[:300]}"
    if ext != ".pgen" and not case.get("stale_index") and C.plumb(case, "stream", 12) == 0:
        # the written VCF / BCF piped into another process that reads /dev/stdin (a stream has no index and cannot be read
        # twice): the matrix that comes back is the same.  A process of its own with a time limit: htslib blocks inside C when
        # a pipe is mishandled, where no Python time-out reaches
        import json
        import subprocess
        import sys

        code = (
            "import sys, json; sys.path.insert(0, %r); sys.path.insert(0, %r)\n"
            "from harness import gtio, simdata as SD, common as C\n"
            "from haptools import data as D\n"
            "r = getattr(D, %r)('/dev/stdin', log=SD.silent_log()); r.read()\n"
            "print('SNAP' + C.jdump(C.canon(gtio.snapshot(r))))\n"
        ) % (str(C.REPO), str(C.VERIF), case["reader"])
        try:
            pr = subprocess.run([sys.executable, "-c", code], input=open(path, "rb").read(), capture_output=True, timeout=60)
            m = [l for l in pr.stdout.decode(errors="replace").splitlines() if l.startswith("SNAP")]
            if not m:
                obs["stream_differs"] = "reading the piped file failed: " + pr.stderr.decode(errors="replace")[-200:]
            elif json.loads(m[-1][4:]) != json.loads(C.jdump(C.canon(back))):
                obs["stream_differs"] = "another matrix"
        except subprocess.TimeoutExpired:
            obs["stream_differs"] = "the reader did not finish within 60 s"
    return obs


def expected_variants(case, with_alleles=True):
    out = []
    for v in case["variants"]:
        e = {"id": v["id"], "chrom": v["chrom"], "pos": v["pos"]}
        if with_alleles:
            e["alleles"] = v["alleles"]
        out.append(e)
    return out


def model_req(case):
    data = case["data"]
    if case["drop_phase_plane"]:
        data = [[[c[0], c[1], 1] for c in r] for r in data]
    return {"op": "gtStore", "fmt": "pgen" if case["fmt"].startswith(".pgen") else "vcf", "data": data, "nv": len(case["variants"]), "wchunk": case["wchunk"], "rchunk": case["rchunk"]}


def model_obs(case, resp):
    with_alleles = case["reader"] != "Genotypes"
    empty = len(case["variants"]) == 0
    return {"read": {"samples": case["samples"], "variants": expected_variants(case, with_alleles), "data": resp["data"] if not empty else [[] for _ in case["samples"]]}}


def equal(a, b):
    if "error" in a:
        return False
    ra, rb = C.canon(a["read"]), C.canon(b["read"])
    if len(rb["variants"]) == 0:
        # an empty matrix round-trips to an empty matrix: haptools drops the sample rows too (shape (0,0,0))
        return ra["variants"] == [] and (ra["data"] in ([], [[] for _ in ra["samples"]])) and ra["samples"] == rb["samples"]
    # the phase bit of a non-heterozygous (homozygous or missing) call is not information: normalised on both sides
    for r in (ra, rb):
        if isinstance(r["data"], list):
            r["data"] = [[[c[0], c[1], 1 if c[0] == c[1] else c[2]] for c in row] for row in r["data"]]
    return ra == rb


def equiv_pgen(w, r):
    a, b, ph = w
    if a == b:
        return r[0] == a and r[1] == b
    if ph:
        return r == [a, b, 1]
    return r[2] == 0 and sorted(r[:2]) == sorted([a, b])


def oracle(case, obs):
    if "error" in obs:
        return f"write/read raised {obs}"
    if obs.get("iter_differs"):
        return obs["iter_differs"]
    if obs.get("reused_reader_differs"):
        return obs["reused_reader_differs"]
    if obs.get("stream_differs"):
        return f"the written {case['fmt']} file piped into a process that reads /dev/stdin does not come back as the same file read by name does: {obs['stream_differs']}"
    pg = case["fmt"].startswith(".pgen")
    data = case["data"] if not case["drop_phase_plane"] else [[[c[0], c[1], 1] for c in r] for r in case["data"]]
    for name in ("disk", "read"):
        o = obs[name]
        if len(case["variants"]) == 0:
            if o["variants"] != [] or any(len(r) for r in (o["data"] or [])):
                return f"{name}: an empty matrix did not round-trip to an empty matrix: {o}"
            if name == "read" and o["samples"] != case["samples"]:
                return f"read: the samples of an empty matrix came back as {o['samples']}, written {case['samples']}"
            continue
        if o["samples"] != case["samples"]:
            return f"{name}: samples {o['samples']}"
        wa = not (name == "read" and case["reader"] == "Genotypes")
        if o["variants"] != expected_variants(case, wa):
            return f"{name}: variants {o['variants']} differ from those written {expected_variants(case, wa)}"
        if isinstance(o["data"], str):
            return f"{name}: data has {o['data']}"
        for i, row in enumerate(data):
            for j, w in enumerate(row):
                r = o["data"][i][j]
                ok = equiv_pgen(w, r) if pg else (r == w)
                if not ok:
                    return f"{name}: call of {case['samples'][i]} at {case['variants'][j]['id']} written as {w} came back as {r} ({case['fmt']}, write chunk {case['wchunk']}, read chunk {case['rchunk']})"
    if obs["iter_rows"] != len(case["variants"]):
        return f"the streaming iterator yielded {obs['iter_rows']} records for {len(case['variants'])} variants"
    return None


def describe(case, obs):
    tags = [case["fmt"], f"reader={case['reader']}"]
    if not case["variants"]:
        tags.append("empty-matrix")
    if case.get("stale_index"):
        tags.append("stale-index-of-an-older-file-beside-it")
    key = [(v["chrom"], v["pos"]) for v in case["variants"]]
    if key != sorted(key):
        tags.append("records-unsorted")
    if any(c[0] == 255 or c[1] == 255 for r in case["data"] for c in r):
        tags.append("missing-calls")
    if any((c[0] == 255) != (c[1] == 255) for r in case["data"] for c in r):
        tags.append("half-missing")
    for j, v in enumerate(case["variants"]):
        seen = {c for r in case["data"] for c in r[j][:2] if c != 255}
        if len(v["alleles"]) > 2 and len(seen) < len(v["alleles"]):
            tags.append("unobserved-allele")
            break
    if case["fmt"].startswith(".pgen"):
        tags.append(f"wchunk={'none' if case['wchunk'] is None else 'set'}")
    return sorted(set(tags))


# ------------------------------------------------------------------ what PGEN cannot store must be refused
def gen_refuse(rng, tier):
    for _ in range(15 if tier == "quick" else 200):
        c = gtio.gen_content(rng, allow_half_missing=False, min_v=1)
        i, j = rng.randrange(len(c["samples"])), rng.randrange(len(c["variants"]))
        c["data"][i][j] = [255, 0, 1] if rng.random() < 0.5 else [1, 255, 0]
        yield c


def impl_refuse(case):
    path = _dir / "h.pgen"
    g = gtio.make_obj("GenotypesPLINK", path, case)
    try:
        g.write()
    except Exception as e:  # noqa
        return {"refused": True, "exc": type(e).__name__}
    from haptools import data as D

    r = D.GenotypesPLINK(path, log=SD.silent_log())
    r.read()
    return {"refused": False, "read": gtio.snapshot(r)}


def oracle_refuse(case, obs):
    if "error" in obs:
        return None
    if obs["refused"]:
        return None
    for i, row in enumerate(case["data"]):
        for j, w in enumerate(row):
            if (w[0] == 255) != (w[1] == 255) and obs["read"]["data"][i][j][:2] != w[:2]:
                return f"a half-missing call {w} was silently stored in PGEN as {obs['read']['data'][i][j]}"
    return None


CHECK = Check(
    id="C07",
    title="Genotypes written to VCF/BCF or PGEN read back unchanged",
    theorems=["C07.vcf_cell_roundtrip", "C07.pgen_cell_roundtrip", "C07.pgen_store_idempotent", "C07.chunks_tile", "C07.chunk_size_positive", "C07.empty_roundtrip", "C07.allele_cts_sound", "C07.pgen_matrix_roundtrip", "C07.pgen_file_independent_of_chunk_size", "C07.pgen_matrix_second_trip_is_identity"],
    sections=[
        Section(
            name="write_read",
            theorems=["C07.vcf_cell_roundtrip", "C07.pgen_cell_roundtrip", "C07.chunks_tile", "C07.chunk_size_positive", "C07.empty_roundtrip", "C07.allele_cts_sound", "C07.pgen_matrix_roundtrip", "C07.pgen_file_independent_of_chunk_size", "C07.pgen_matrix_second_trip_is_identity"],
            gen=gen,
            impl=impl,
            model_req=model_req,
            model_obs=model_obs,
            equal=equal,
            oracle=oracle,
            describe=describe,
            setup=setup,
            teardown=teardown,
            nontrivial=lambda c, o: C.jdump([c["variants"], c["data"], c["fmt"], c["wchunk"], c["rchunk"]]) if c["variants"] else None,
            rule="seeded random matrices (1-4 samples x 0-6 variants on 1-3 contigs, 2-4 alleles with arbitrary subsets observed incl. unused middle alleles, fully and half missing calls, all phase patterns, matrices without phase plane) written by haptools to .vcf, .vcf.gz (with and without index), .bcf and .pgen (write chunk sizes none, 1, 2, p, p+2) and read back by haptools (Genotypes / GenotypesVCF / GenotypesPLINK, read chunk sizes likewise, bulk and streaming); the file is also inspected with pysam / pgenlib directly; equality for VCF, equality up to unphased-heterozygote order and homozygote phase for PGEN",
        ),
        Section(
            name="pgen_refuses_half_missing",
            theorems=["C07.pgen_cell_roundtrip"],
            gen=gen_refuse,
            impl=impl_refuse,
            oracle=oracle_refuse,
            setup=setup,
            teardown=teardown,
            nontrivial=lambda c, o: C.jdump(c),
            describe=lambda c, o: "refused" if isinstance(o, dict) and o.get("refused") else "stored",
            rule="matrices with one half-missing call written to PGEN: pgenlib cannot store them, so the write must fail (or store the call unchanged), never alter it silently",
        ),
    ],
    trusted=["htslib / pysam / cyvcf2 and pgenlib write and read what they are given (bytes on disk are theirs)", "PGEN storage contract as observed through pgenlib: unphased heterozygotes unordered, phase kept for heterozygotes only"],
    assumptions=["allele indices are within each variant's allele list; PGEN calls are fully missing or fully present"],
    partial="the bytes on disk and their re-reading belong to htslib / pgenlib; the theorems cover the codecs, chunk arithmetic and allele counts haptools computes",
    anchors=[("haptools/data/genotypes.py", ["Genotypes.read", "Genotypes._iterate", "Genotypes._vcf_iter", "Genotypes._return_data", "GenotypesVCF._variant_arr", "GenotypesVCF.write", "GenotypesPLINK.read_samples", "GenotypesPLINK.read_variants", "GenotypesPLINK.read", "GenotypesPLINK._iterate", "GenotypesPLINK.write_samples", "GenotypesPLINK.write_variants", "GenotypesPLINK.write", "GenotypesPLINK._iterate_variants"])],
)
