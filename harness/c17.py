"""C17 — clump output is exactly greedy LD clumping and always terminates."""
from __future__ import annotations

import math
from fractions import Fraction

import numpy as np

from . import common as C
from . import gtfiles as GF
from . import simdata as SD
from .run import Check, Section

_dir = None
ONE = 10**320  # p-values enter the Lean model as integers p * ONE: exact for every decimal token down to 1e-300
PVALS = ["0", "1e-8", "0.0001", "0.0001", "0.001", "0.03", "0.05", "0.05", "0.2", "0.5", "0.9", "1", "1e-70", "3e-52", "4e-48", "1e-300", "0.00010000000001"]  # incl. values that only differ beyond single precision


def setup():
    global _dir
    _dir = C.scratch_dir("c17")
    return _dir


def teardown(_):
    C.rm_tree(_dir)


def r2_exact(a, b):
    """squared Pearson correlation of two integer vectors as an exact Fraction; None when undefined"""
    n = len(a)
    if n == 0:
        return "empty"
    sa, sb = sum(a), sum(b)
    va = n * sum(x * x for x in a) - sa * sa
    vb = n * sum(x * x for x in b) - sb * sb
    if va == 0 or vb == 0:
        return None
    cov = n * sum(x * y for x, y in zip(a, b)) - sa * sb
    return Fraction(cov * cov, va * vb)


# ------------------------------------------------------------------ ComputeLD kernel (oracle: exact rationals)
def gen_ld(rng, tier):
    n = 1500 if tier == "quick" else 40000
    for t in range(n):
        ns = rng.randint(1, 8)
        mode = rng.choice(["snp", "snp", "str", "str-long", "missing"])
        pool = {"snp": [0, 1], "str": [0, 1, 2, 5, 9], "str-long": [0, 3, 120, 130, 200, 253], "missing": [0, 1, 1, 2, 254, 255]}[mode]
        a = [[rng.choice(pool), rng.choice(pool)] for _ in range(ns)]
        b = [[rng.choice(pool), rng.choice(pool)] for _ in range(ns)]
        if rng.random() < 0.15:
            b = [list(x) for x in a]
        if rng.random() < 0.1:
            b = [[1, 0] for _ in range(ns)]
        yield {"cand": a, "index": b, "ld": "Exact" if (mode == "snp" and rng.random() < 0.5) else "Pearson", "phased_truth": mode == "snp"}


def impl_ld(case):
    from haptools import clump as K

    c = np.array(case["cand"], dtype=np.uint8).reshape((-1, 2))
    i = np.array(case["index"], dtype=np.uint8).reshape((-1, 2))
    d, r2 = K.ComputeLD(c, i, case["ld"], SD.silent_log())
    return {"r2": None if r2 is None else float(r2)}


def oracle_ld(case, obs):
    if "error" in obs:
        return f"ComputeLD raised {obs}"
    keep = [k for k in range(len(case["cand"])) if max(case["cand"][k]) < 254 and max(case["index"][k]) < 254]
    a = [sum(case["cand"][k]) for k in keep]
    b = [sum(case["index"][k]) for k in keep]
    r = r2_exact(a, b)
    got = obs["r2"]
    if r == "empty":
        return None if got == 0 else f"no sample without a missing call, r2 reported as {got}"
    if r is None:
        return None if (got is not None and math.isnan(got)) else f"a variant is constant over the valid samples but r2={got} (must be NaN: never in LD)"
    if got is None or math.isnan(got):
        return f"r2 is {got} although both dosage vectors vary over the valid samples (exact r2={float(r)})"
    if case["ld"] == "Pearson":
        if abs(got - float(r)) > 1e-9:
            return f"Pearson r2={got}, squared correlation of the dosages over samples without missing calls is {float(r)}"
        return None
    # Exact mode: range, and the true haplotype r2 when no sample is doubly heterozygous
    if not (-1e-9 <= got <= 1 + 1e-9):
        return f"exact r2={got} outside [0,1]"
    dh = any(a[k] == 1 and b[k] == 1 for k in range(len(a)))
    if not dh:
        # without double heterozygotes the haplotype table is determined by the unphased genotypes
        n = len(a)
        x11 = 0  # haplotypes carrying alt at both
        for k in range(n):
            if a[k] == 2 and b[k] == 2:
                x11 += 2
            elif (a[k] == 2 and b[k] == 1) or (a[k] == 1 and b[k] == 2):
                x11 += 1
        pa, pb = Fraction(sum(a), 2 * n), Fraction(sum(b), 2 * n)
        D = Fraction(x11, 2 * n) - pa * pb
        den = pa * (1 - pa) * pb * (1 - pb)
        if den != 0:
            true = D * D / den
            if abs(got - float(true)) > 2e-6:
                return f"exact r2={got}, true haplotype r2 without double heterozygotes is {float(true)}"
    return None


def model_req_ld(case):
    return {"op": "clumpLd", "cand": case["cand"], "index": case["index"]}


def equal_ld(a, b):
    """Pearson mode against the Lean statistic (exact integers); the Exact mode is judged by the oracle alone"""
    if "error" in a:
        return False
    if "pearson" not in b:
        return True
    got, m = a["r2"], b["pearson"]
    if m["kind"] == "empty":
        return got == 0
    if m["kind"] == "undefined":
        return got is not None and math.isnan(got)
    return got is not None and not math.isnan(got) and abs(got - m["num2"] / m["den"]) <= 1e-9


def describe_ld(case, obs):
    r = obs.get("r2") if isinstance(obs, dict) else None
    k = "nan" if (r is not None and isinstance(r, float) and math.isnan(r)) else ("zero" if r == 0 else "value")
    return [case["ld"], k, "large-alleles" if any(max(x) >= 120 for x in case["cand"] + case["index"] if max(x) < 254) else "small-alleles"]


# ------------------------------------------------------------------ whole clumping runs (SNPs)
def gen_clump(rng, tier):
    n = 150 if tier == "quick" else 4000
    for t in range(n):
        nv = rng.randint(1, 8)
        ns = rng.randint(2, 8)
        # a tenth of the cases each goes to three corners that need several unremarkable conditions at once (fixed shares, so that
        # every run holds them whatever the seed): more than 32 strong hits with p-values that differ only beyond single
        # precision; a dense window of tandem repeats with missing calls; a window that is not a whole number of base pairs with
        # a candidate in LD exactly on its last base pair
        stream = {0: "tiny_p", 1: "dense", 2: "window", 3: "two_orders"}.get(t % 10)
        medium = stream == "tiny_p" or rng.random() < 0.03
        if medium:
            nv, ns = rng.randint(17, 45) if stream != "tiny_p" else rng.randint(34, 45), rng.randint(17, 40)
        dense = stream == "dense"  # 26-40 tandem repeats with missing calls inside one window
        if dense:
            nv, ns = rng.randint(26, 40), rng.randint(12, 20)
        chroms = rng.sample(["1", "2", "X"], rng.randint(1, 2)) if not dense else [rng.choice(["1", "2", "X"])]
        variants = []
        used = set()
        dup_ids = rng.random() < 0.35  # several variants share an ID ('.' placeholders, SNP/indel pairs with one rsID)
        for j in range(nv):
            while True:
                c, pos = rng.choice(chroms), (rng.choice([100, 600, 1100, 1500, 2000, 32399, 100000, 251000, 500000]) if not (medium or dense) else (100 * rng.randint(1, 3000) if medium else 500 * rng.randint(1, 400)))
                if (c, pos) not in used:
                    used.add((c, pos))
                    break
            variants.append({"id": (rng.choice([".", ".", "rs1"]) if dup_ids else (f"rs{j}" if rng.random() < 0.9 else ".")), "chrom": c, "pos": pos, "p": rng.choice(PVALS)})
        base = [[rng.randint(0, 1), rng.randint(0, 1)] for _ in range(ns)]
        gts = []
        for j in range(nv):
            r = rng.random()
            if r < 0.35:
                col = [list(x) for x in base]
                for _ in range(rng.randint(0, 2)):
                    k = rng.randrange(ns)
                    col[k] = [rng.randint(0, 1), rng.randint(0, 1)]
            elif r < 0.5:
                col = [[1, 1] for _ in range(ns)] if rng.random() < 0.5 else [[0, 0] for _ in range(ns)]
            else:
                col = [[rng.randint(0, 1), rng.randint(0, 1)] for _ in range(ns)]
            gts.append(col)
        rows = list(range(nv))
        rng.shuffle(rows)
        # SNP-only, STR-only or mixed input: an STR's alleles are repeat copy numbers (1..7 whole units), its dosage their sum
        mode = rng.choice(["snp", "snp", "str", "mixed", "mixed"]) if not dense else "str"
        types = ["SNP" if mode == "snp" or (mode == "mixed" and rng.random() < 0.5) else "STR" for _ in range(nv)]
        for j in range(nv):
            if types[j] == "STR":
                lo, hi = rng.sample([1, 2, 3, 4, 5, 7], 2)
                gts[j] = [[(hi if a else lo), (hi if b else lo)] for a, b in gts[j]]
                if rng.random() < 0.3:
                    k = rng.randrange(ns)
                    gts[j][k] = [rng.randint(1, 7), rng.randint(1, 7)]
                if rng.random() < 0.3:
                    # missing calls (only a tandem-repeat file can carry them: the SNP loaders refuse missing calls):
                    # r2 is taken over the samples called at both variants
                    for k in rng.sample(range(ns), rng.randint(1, max(1, ns // 3))):
                        gts[j][k] = None
        over = {}
        if stream == "tiny_p":
            for v in variants:
                v["p"] = rng.choice(["1e-70", "3e-52", "4e-48", "1e-300", "1e-46", "2e-46", "1e-8"])
            over = {"p1": "1", "p2": "1", "kb": rng.choice([250, 1000])}
        elif stream == "dense":
            over = {"p1": rng.choice(["0.6", "1"]), "p2": "1", "r2": rng.choice([0.1, 0.5])}
        elif stream == "two_orders" and nv >= 2 and ns >= 4:
            # a SNP and an STR in complete LD, called in two files that list the same samples in different orders: they clump
            # together only if the rows are aligned by sample name
            c0 = variants[0]["chrom"]
            col = [[i % 2, (i // 2) % 2] for i in range(ns)]  # not symmetric under reversal or rotation of the samples
            gts[0] = [list(x) for x in col]
            gts[1] = [[3 if a else 2, 5 if b else 2] for a, b in col]
            types[0], types[1] = "SNP", "STR"
            variants[0].update(pos=1000, p="1e-9")
            variants[1].update(chrom=c0, pos=1200, p="0.001")
            over = {"p1": "1", "p2": "1", "r2": 0.5, "kb": 250, "str_sample_order": rng.choice(["reversed", "rotated"]), "ld": "Pearson", "pgen": False}
        elif stream == "window" and nv >= 3:
            kb = rng.choice([32.3, 0.5002, 1.9003, 0.4003, 2.0015, 128.2])
            w = int(math.floor(Fraction(str(kb)) * 1000))  # the last whole base pair inside the window
            c0 = variants[0]["chrom"]
            variants[0].update(pos=1000, p="1e-9")
            variants[1].update(chrom=c0, pos=1000 + w, p="0.001")
            variants[2].update(chrom=c0, pos=1000 + w + 1, p="0.002")
            for j in range(3, nv):
                variants[j]["pos"] += 2_000_000  # out of the way
            for j in (1, 2):
                gts[j] = [list(x) if x is not None else None for x in gts[0]]  # in complete LD with the index variant
                types[j] = types[0]
            over = {"p1": "1", "p2": "1", "r2": rng.choice([0.1, 0.5]), "kb": kb}
        case = {"types": types, "variants": variants, "gts": gts, "order": rows, "p1": rng.choice(["0.0001", "0.01", "0.1", "0.6", "1"]), "p2": rng.choice(["0.01", "0.3", "1"]), "kb": rng.choice([0.001, 0.5, 1, 250, 250, 0.5002, 1.9003, 0.4003, 32.3]) if not dense else 250, "r2": rng.choice([0.0, 0.1, 0.5, 0.9]), "ld": rng.choice(["Pearson", "Pearson", "Exact"]) if mode == "snp" else "Pearson", "cols": rng.choice([["SNP", "CHR", "POS", "P"], ["P", "POS", "SNP", "CHR"], ["CHR", "junk", "SNP", "P", "POS"]]), "names": rng.choice([None, {"SNP": "ID", "P": "p-value", "CHR": "CHROM", "POS": "position"}]), "pgen": rng.random() < 0.3 and mode != "str"}
        case.update(over)
        yield case


def loaded_order(case):
    """the order in which clumpstr holds the variants: the SNP table's rows, then the STR table's rows (file order each)"""
    ty = case.get("types") or ["SNP"] * len(case["variants"])
    return [j for j in case["order"] if ty[j] == "SNP"] + [j for j in case["order"] if ty[j] == "STR"]


def write_str_vcf(path, samples, recs):
    """a HipSTR-style tandem-repeat VCF: recs = [(id, chrom, pos, motif, [[copy_a, copy_b] per sample])]"""
    with open(path, "w") as f:
        f.write("##fileformat=VCFv4.2\n##command=HipSTR-v0.7 --test\n")
        f.write('##INFO=<ID=START,Number=1,Type=Integer,Description="Inclusive start coodinate for the repetitive portion of the reference allele">\n')
        f.write('##INFO=<ID=END,Number=1,Type=Integer,Description="Inclusive end coordinate for the repetitive portion of the reference allele">\n')
        f.write('##INFO=<ID=PERIOD,Number=1,Type=Integer,Description="Length of STR motif">\n')
        f.write('##FORMAT=<ID=GT,Number=1,Type=String,Description="Genotype">\n')
        for c in ("1", "2", "X"):
            f.write(f"##contig=<ID={c}>\n")
        f.write("#CHROM\tPOS\tID\tREF\tALT\tQUAL\tFILTER\tINFO\tFORMAT\t" + "\t".join(samples) + "\n")
        for vid, chrom, pos, motif, col in recs:
            copies = sorted({x for pair in col if pair is not None for x in pair}) or [1]
            ref = copies[0]
            alts = [k for k in copies if k != ref] or [ref + 1]
            idx = {ref: 0, **{k: i + 1 for i, k in enumerate(alts)}}
            gt = ["." if pair is None else "|".join(str(idx[x]) for x in pair) for pair in col]
            f.write("\t".join([chrom, str(pos), vid, motif * ref, ",".join(motif * k for k in alts), ".", ".", f"START={pos};END={pos + len(motif) * ref - 1};PERIOD={len(motif)}", "GT"] + gt) + "\n")


def _decisions(case):
    """exact LD decision matrix ld[i][j] = r2(i, j) > threshold (Pearson on dosages; NaN -> False); also flags
    cases whose r2 is within 1e-9 of the threshold (not comparable through floats)"""
    nv = len(case["variants"])
    dos = [[None if x is None else sum(x) for x in col] for col in case["gts"]]
    thr = Fraction(case["r2"]).limit_denominator(10**6)
    ld = [[False] * nv for _ in range(nv)]
    near = False
    for i in range(nv):
        for j in range(nv):
            both = [(a, b) for a, b in zip(dos[j], dos[i]) if a is not None and b is not None]  # pairwise deletion
            r = r2_exact([a for a, _ in both], [b for _, b in both])
            if r is None or r == "empty":
                continue
            if abs(float(r) - float(thr)) < 1e-6:
                near = True
            ld[i][j] = r > thr
    return ld, near


def impl_clump(case):
    from haptools import clump as K

    if case["ld"] == "Pearson" and _decisions(case)[1]:
        # an exact r2 within 1e-6 of the threshold: the float comparison is not decidable from exact values
        return {"near_threshold": True}

    names = case["names"] or {}
    nm = lambda k: names.get(k, k)
    ty = case.get("types") or ["SNP"] * len(case["variants"])
    stats = {}
    for kind in ("SNP", "STR"):
        rows = [j for j in case["order"] if ty[j] == kind]
        if not rows:
            continue
        stats[kind] = _dir / f"stats_{kind}.txt"
        txt = ("#" if case["order"][0] % 2 else "") + "\t".join(nm(c) for c in case["cols"]) + "\n"
        for j in rows:
            v = case["variants"][j]
            row = {"SNP": v["id"], "CHR": v["chrom"], "POS": str(v["pos"]), "P": v["p"], "junk": "x"}
            txt += "\t".join(row[c] for c in case["cols"]) + "\n"
        # the end of the table as users' tools leave it: a final newline, none, or an empty line after the last row
        end = C.plumb(case, "stats-end:" + kind, 5)
        txt = txt[:-1] if end == 0 else (txt + "\n" if end == 1 else txt)
        with open(stats[kind], "w") as f:
            f.write(txt)
    order = sorted(range(len(case["variants"])), key=lambda j: ({"1": 1, "2": 2, "X": 23}[case["variants"][j]["chrom"]], case["variants"][j]["pos"]))
    samples = [f"s{i}" for i in range(len(case["gts"][0]))]
    gfile = sfile = None
    snp_order = [j for j in order if ty[j] == "SNP"]
    if snp_order:
        variants = [(case["variants"][j]["id"] if case["variants"][j]["id"] != "." else f"noid{j}", case["variants"][j]["chrom"], case["variants"][j]["pos"], ["A", "C"]) for j in snp_order]
        data = [[(case["gts"][j][i][0], case["gts"][j][i][1], 1) for j in snp_order] for i in range(len(samples))]
        if case["pgen"]:
            GF.write_pgen(_dir / "g", samples, variants, data)
            gfile = str(_dir / "g.pgen")
        else:
            GF.write_vcf_text(_dir / "g.vcf", samples, variants, data, contigs=["1", "2", "X"])
            gfile = str(_dir / "g.vcf")
    str_order = [j for j in order if ty[j] == "STR"]
    if str_order:
        # the STR file lists the same samples, in half of the cases in another order than the SNP file (two call sets, two orders)
        perm = list(range(len(samples)))
        if case.get("str_sample_order"):
            perm = perm[::-1] if case["str_sample_order"] == "reversed" else perm[1:] + perm[:1]
        elif len(samples) > 1 and C.plumb(case, "str-sample-order", 2) == 0:
            perm = perm[::-1] if C.plumb(case, "str-sample-order-kind", 2) == 0 else perm[1:] + perm[:1]
        write_str_vcf(_dir / "tr.vcf", [samples[i] for i in perm], [(case["variants"][j]["id"] if case["variants"][j]["id"] != "." else f"tr{j}", case["variants"][j]["chrom"], case["variants"][j]["pos"], ["AC", "GTT", "A"][j % 3], [case["gts"][j][i] for i in perm]) for j in str_order])
        sfile = str(_dir / "tr.vcf")
    out = _dir / "out.clump"
    if C.plumb(case, "stale-out", 3) == 0:
        C.stale_output(out)  # a re-run into the name of an older, longer result
    elif out.exists():
        out.unlink()
    K.clumpstr(str(stats["SNP"]) if "SNP" in stats else None, str(stats["STR"]) if "STR" in stats else None, gfile, sfile, float(case["p1"]), float(case["p2"]), nm("SNP"), nm("P"), nm("CHR"), nm("POS"), case["kb"], case["r2"], case["ld"], str(out), SD.silent_log())
    lines = open(out).read().splitlines()
    clumps = []
    key = {(v["id"], v["chrom"], v["pos"]): j for j, v in enumerate(case["variants"])}
    for ln in lines[1:]:
        f = ln.split("\t")
        idx = key[(f[0], f[1], int(f[2]))]
        mem = []
        if f[5]:
            for item in f[5].split(","):
                t = item.split(" ")
                mem.append(key[(t[0], t[1], int(t[2]))])
        if f[4] != ty[idx]:
            return {"error": "vartype", "msg": f"variant {f[0]} {f[1]}:{f[2]} is listed with VARTYPE {f[4]}, it was given as {ty[idx]}"}
        clumps.append([idx, mem])
    return {"clumps": clumps, "header": lines[0].split("\t")}


def _decisions_exact_mode(case):
    """Exact (maximum-likelihood) mode: the LD decisions are taken from the real estimator (it is compared with the
    truth in section compute_ld); the loop logic around them is what this section compares"""
    from haptools import clump as K

    nv = len(case["variants"])
    ld = [[False] * nv for _ in range(nv)]
    for i in range(nv):
        for j in range(nv):
            c = np.array(case["gts"][j], dtype=np.uint8).reshape((-1, 2))
            x = np.array(case["gts"][i], dtype=np.uint8).reshape((-1, 2))
            _, r2 = K.ComputeLD(c, x, "Exact", SD.silent_log())
            ld[i][j] = bool(r2 > case["r2"])
    return ld


def model_req_clump(case):
    ld, near = _decisions(case)
    if case["ld"] == "Exact":
        ld = _decisions_exact_mode(case)
    f = lambda s: int(Fraction(s) * ONE)
    # uid = position in the loaded list = file order (SNP table first, then STR table)
    order = loaded_order(case)
    vs = [{"p": f(case["variants"][j]["p"]), "chrom": case["variants"][j]["chrom"], "pos": case["variants"][j]["pos"]} for j in order]
    ldm = [[ld[i][j] for j in order] for i in order]
    return {"op": "clump", "one": ONE, "p1": f(case["p1"]), "p2": f(case["p2"]), "win": math.ceil(Fraction(str(case["kb"])) * 1000), "vars": vs, "ld": ldm}  # win: |d| < kb*1000 for an integer distance d, also for windows that are not whole base pairs


def model_obs_clump(case, resp):
    if case["ld"] == "Pearson" and _decisions(case)[1]:
        return {"near_threshold": True}
    order = loaded_order(case)
    return {"clumps": [[order[i], [order[m] for m in mem]] for i, mem in resp["clumps"]], "header": ["ID", "CHROM", "POS", "P", "VARTYPE", "CLUMPVARS"]}


def eq_clump(a, b):
    a, b = C.canon(C.strip_msg(a)), C.canon(C.strip_msg(b))
    return a == b


def oracle_clump(case, obs):
    """greedy clumping re-derived from the statement (pure Python, exact rationals)"""
    if "error" in obs:
        return f"clumpstr raised {obs}"
    if obs.get("near_threshold"):
        return None
    ld, near = _decisions(case)
    if near or case["ld"] == "Exact":
        # float r2 too close to the threshold, or the maximum-likelihood estimator: membership is not decidable
        # from exact Pearson values; only the structural clauses are checked
        seen = set()
        for idx, mem in obs["clumps"]:
            for v in [idx] + [m for m in mem if m != idx]:
                if v in seen:
                    return f"variant {v} appears in two clumps"
                seen.add(v)
        return None
    V = case["variants"]
    P = [Fraction(v["p"]) for v in V]
    p1, p2 = Fraction(case["p1"]), Fraction(case["p2"])
    pool = [j for j in loaded_order(case) if P[j] <= p2]
    exp = []
    while True:
        cand = [j for j in pool if P[j] < p1 and P[j] < 1]
        if not cand:
            break
        best = min(cand, key=lambda j: (P[j], pool.index(j)))
        mem = [j for j in pool if V[j]["chrom"] == V[best]["chrom"] and abs(V[j]["pos"] - V[best]["pos"]) < Fraction(str(case["kb"])) * 1000 and ld[best][j]]
        exp.append([best, mem])
        pool = [j for j in pool if j not in mem and j != best]
    if obs["clumps"] != exp:
        return f"clump file lists {obs['clumps']}, greedy clumping gives {exp}"
    return None


def describe_clump(case, obs):
    if isinstance(obs, dict) and obs.get("near_threshold"):
        return ["skipped-r2-within-1e-6-of-threshold"]
    ty = set(case.get("types") or ["SNP"])
    tags = [case["ld"], "pgen" if case["pgen"] else "vcf", "input=" + ("mixed" if len(ty) == 2 else ty.pop()), f"clumps={len(obs.get('clumps', [])) if isinstance(obs, dict) else 'err'}"]
    ps = [v["p"] for v in case["variants"]]
    if len(set(ps)) < len(ps):
        tags.append("p-ties")
    ids = [v["id"] for v in case["variants"]]
    if len(set(ids)) < len(ids):
        tags.append("shared-ids")
    if any(g_ is None for g in case["gts"] for g_ in g):
        tags.append("missing-str-calls")
    if any(all(x == col[0] for x in col) for col in [[None if c is None else sum(c) for c in g] for g in case["gts"]]):
        tags.append("constant-genotype-variant")
    return tags


def variants_clump(case):
    nv = len(case["variants"])
    for d in range(nv):
        if nv > 1:
            keep = [j for j in range(nv) if j != d]
            ren = {j: k for k, j in enumerate(keep)}
            yield {**case, "variants": [case["variants"][j] for j in keep], "gts": [case["gts"][j] for j in keep], "types": [(case.get("types") or ["SNP"] * nv)[j] for j in keep], "order": [ren[j] for j in case["order"] if j != d]}


# ------------------------------------------------------------------ sample overlap
def gen_overlap(rng, tier):
    for _ in range(200 if tier == "quick" else 5000):
        pool = [f"s{i}" for i in range(8)] + ["S1", "a", "Z"]
        a = rng.sample(pool, rng.randint(0, 6))
        b = rng.sample(pool, rng.randint(0, 6))
        yield {"snp": a, "str": b}


def impl_overlap(case):
    from haptools import clump as K
    import types

    r = K.GetOverlappingSamples(types.SimpleNamespace(samples=tuple(case["snp"])), types.SimpleNamespace(samples=tuple(case["str"])))
    return {"snp_idx": [int(x) for x in r[0]], "str_idx": [int(x) for x in r[1]]}


def model_req_overlap(case):
    """names enter the walk through their rank in Python's string order; entries sorted by name, as _SortSamples does"""
    rank = {n: i for i, n in enumerate(sorted(set(case["snp"]) | set(case["str"])))}
    enc = lambda l: sorted([rank[n], i] for i, n in enumerate(l))
    return {"op": "overlap", "snp": enc(case["snp"]), "str": enc(case["str"])}


def oracle_overlap(case, obs):
    if "error" in obs:
        return f"raised {obs}"
    a, b = case["snp"], case["str"]
    pa = [a[i] for i in obs["snp_idx"]]
    pb = [b[i] for i in obs["str_idx"]]
    if pa != pb:
        return f"rows are not aligned: {pa} vs {pb}"
    if set(pa) != set(a) & set(b) or len(pa) != len(set(pa)):
        return f"overlap {pa} is not exactly the common samples {sorted(set(a) & set(b))}"
    return None


CHECK = Check(
    id="C17",
    title="clump output is exactly greedy LD clumping and always terminates",
    theorems=["C17.index_order", "C17.members_exact", "C17.load_filters", "C17.step_shrinks", "C17.clumps_disjoint", "C17.clumps_from_table", "C17.overlapping_samples_exact", "C17.ld_over_samples_without_missing_calls", "C17.ld_symmetric", "C17R.pearson_r2_fraction_in_unit_interval", "C17R.pearson_r2_in_unit_interval", "C17R.exact_r2_in_unit_interval", "C17R.cubic_root_no_double_het"],
    imports=("HapModel", "HapReal"),
    build_targets=("HapModel", "HapReal"),
    sections=[
        Section(
            name="clumpstr",
            theorems=["C17.index_order", "C17.members_exact", "C17.load_filters", "C17.clumps_disjoint"],
            gen=gen_clump,
            impl=impl_clump,
            model_req=model_req_clump,
            model_obs=model_obs_clump,
            equal=eq_clump,
            oracle=oracle_clump,
            describe=describe_clump,
            variants=variants_clump,
            setup=setup,
            teardown=teardown,
            nontrivial=lambda c, o: C.jdump(c) if isinstance(o, dict) and len(o.get("clumps", [])) >= 1 and len(c["variants"]) > 2 else None,
            rule="seeded random summary-statistics tables (1-8 variants on 1-2 chromosomes, p from {0,1e-8,...,1} with ties, shuffled rows, three column orders, default and renamed columns, optional leading #), SNP-only, STR-only and mixed input (SNP table + STR table, SNP genotypes as VCF or PGEN, STR genotypes as a HipSTR-style VCF read through GenotypesTR; STR alleles are whole repeat copy numbers 1-7, the dosage their sum), phased genotype matrices with correlated, constant and independent columns, thresholds p1, p2, kb (0.001..250, incl. windows that are not a whole number of base pairs and 32.3, whose product with 1000 is not exact in binary, with candidates on the last base pair inside), r2 (0..0.9), both LD modes; the .clump file is compared with the Lean greedy loop fed the exact-rational LD decisions (Pearson; cases within 1e-6 of the r2 threshold and the Exact mode are compared structurally only)",
        ),
        Section(
            name="compute_ld",
            theorems=["C17.ld_over_samples_without_missing_calls", "C17.ld_symmetric", "C17R.pearson_r2_fraction_in_unit_interval", "C17R.pearson_r2_in_unit_interval", "C17R.exact_r2_in_unit_interval", "C17R.cubic_root_no_double_het"],
            gen=gen_ld,
            impl=impl_ld,
            model_req=model_req_ld,
            model_obs=lambda c, r: {"pearson": r} if c["ld"] == "Pearson" else {},
            equal=equal_ld,
            oracle=oracle_ld,
            describe=describe_ld,
            nontrivial=lambda c, o: C.jdump(c) if isinstance(o, dict) and isinstance(o.get("r2"), float) and o["r2"] == o["r2"] and o["r2"] != 0 else None,
            rule="seeded random pairs of uint8 allele arrays (1-8 samples; SNP, short STR, long STR alleles up to 253, missing 254/255) through ComputeLD: Pearson r2 against the exact rational squared correlation over samples without missing calls (1e-9), NaN iff constant, 0 iff no valid sample; Exact mode in [0,1] and equal (2e-6) to the haplotype r2 when no sample is doubly heterozygous",
        ),
        Section(
            name="overlapping_samples",
            theorems=["C17.overlapping_samples_exact"],
            gen=gen_overlap,
            impl=impl_overlap,
            model_req=model_req_overlap,
            model_obs=lambda c, r: {"snp_idx": [p[0] for p in r["pairs"]], "str_idx": [p[1] for p in r["pairs"]]},
            oracle=oracle_overlap,
            nontrivial=lambda c, o: C.jdump(c) if set(c["snp"]) & set(c["str"]) else None,
            rule="seeded random pairs of sample lists through GetOverlappingSamples, compared with the Lean two-pointer walk (names ranked by string order) and with the set intersection: exactly the common samples, rows aligned",
        ),
    ],
    trusted=["np.corrcoef / float arithmetic of the LD estimators (compared with exact rationals within 1e-9 / 2e-6)", "float() of decimal p-value tokens orders like the exact decimals (tokens are short decimals, comparisons are far from ties except exact equality)", "Python object identity of Variant objects = position in the loaded list"],
    assumptions=["summary-statistics rows have distinct (chromosome, position)", "SNP genotypes are phased, bi-allelic and complete (what GenotypesVCF.load enforces); missing calls are exercised at ComputeLD level"],
    partial="the cubic of ComputeExactLD is solved in floating point with a 1e-5 acceptance window; IEEE arithmetic of np.corrcoef is compared, not proved",
    anchors=[("haptools/clump.py", ["SummaryStats.Load", "SummaryStats.GetNextIndexVariant", "SummaryStats.QueryWindow", "SummaryStats.RemoveClump", "clumpstr", "ComputeLD", "_FilterGts", "ComputeExactLD", "GetOverlappingSamples", "_SortSamples", "LoadVariant", "WriteClump"])],
)
