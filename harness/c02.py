"""C02 — breakpoint output tiles every simulated chromosome and respects the model."""
from __future__ import annotations

from . import common as C
from . import simdata as SD
from . import c01
from .run import Check, Section

MAX = SD.MAX
_dir = None


def setup():
    global _dir
    _dir = C.scratch_dir("c02")
    c01._dir = _dir
    return _dir


def teardown(_):
    C.rm_tree(_dir)


def gen(rng, tier):
    n = 60 if tier == "quick" else 1500
    for i, case in enumerate(c01.gen_sim(rng, "thorough")):
        if i >= n:
            return
        nsamp = case["model"][0]
        case["popsize"] = max(case["popsize"], 2 * nsamp)  # write_breakpoints draws 2n haplotypes without replacement
        case["via_cli"] = (i % 3 == 2)
        if case["via_cli"]:
            # any positive --popsize is legal on the command line: validation raises it to 10 x samples
            case["popsize"] = rng.choice([1, 3, max(1, 2 * nsamp - 1), 15, 40])
        # an earlier simulation in the same process on the same map files (a --region run ending mid-chromosome):
        # whatever it leaves behind must not show in this run's output
        case["prelude"] = None
        if not case["region"] and rng.random() < 0.35:
            c = rng.choice(case["chroms"])
            bps = [b for b, _ in case["maps"][c]]
            a = rng.choice(bps[:-1])
            case["prelude"] = {"chr": c, "start": a, "end": rng.choice([x for x in bps if x > a][:2])}
        yield case


def gen_fine(rng, tier):
    """what the integer-cM model cannot carry: fine-scale maps (marker steps of 1e-6 … 1e-4 cM next to ordinary ones, so that
    cM ends below 1e-4 are written) and models whose fractions are repeating decimals cut after seven digits (rows that
    sum to 1 only to within 1e-7, which the validator accepts)"""
    n = 24 if tier == "quick" else 300
    for i in range(n):
        chroms = [str(c) for c in sorted(rng.sample(range(1, 23), rng.randint(1, 3)))] + (["X"] if rng.random() < 0.3 else [])
        maps = {}
        for c in chroms:
            nm = rng.randint(2, 8)
            bps = sorted(rng.sample(range(100, 100000), nm))
            tiny = rng.random() < 0.6
            cm, cms = 0.0, []
            for k in range(nm):
                if k:
                    cm += rng.choice([0.0, 2e-05, 3e-06, 4e-05, 1.5e-05]) if tiny else rng.choice([0.0, 0.5, 7.25, 40.0, 150.0])
                cms.append(float(repr(round(cm, 9))))
            maps[c] = list(zip(bps, cms))
        model = SD.gen_model(rng, max_lines=rng.randint(1, 3))
        nsamp, pops, lines = model
        k = len(pops)
        if rng.random() < 0.7:
            li = rng.randrange(len(lines))
            g, fr = lines[li]
            if fr[0] in (0.0,):
                w = [rng.randint(1, 3) for _ in range(k)]
                while sum(w) not in (3, 6, 7, 9):
                    w = [rng.randint(1, 3) for _ in range(k)]
                lines[li] = (g, [0.0] + [float(f"{x / sum(w):.7f}") for x in w])  # 0.3333333, 0.6666667, 0.1428571, 0.2222222 …
        yield {"model": (nsamp, pops, lines), "chroms": chroms, "maps": maps, "region": None, "popsize": max(10, 2 * nsamp), "seed": rng.randrange(2**32), "via_cli": i % 2 == 0, "plain_api": i % 2 == 1, "prelude": None}


def impl(case):
    """simulate_gt + write_breakpoints (or the CLI with --only_breakpoint); observation = the .bp text and what the
    readers make of it"""
    import haptools.sim_genotype as sg
    from haptools.data import Breakpoints
    from haptools.karyogram import GetHaplotypeBlocks

    d = _dir / "sim"
    C.rm_tree(d)
    d.mkdir(parents=True)
    SD.write_model(d / "model.dat", case["model"])
    SD.write_maps(d / "maps", case["maps"])
    chroms = [case["region"]["chr"]] if case["region"] else case["chroms"]
    out = d / "out"
    tapes = None
    if case.get("prelude"):
        try:
            pr = case["prelude"]
            sg.simulate_gt(str(d / "model.dat"), str(d / "maps"), [pr["chr"]], pr, max(case["popsize"], 10), SD.silent_log(), 99)
        except Exception:  # noqa: only what it leaves behind matters here
            pass
    if case["via_cli"]:
        from click.testing import CliRunner
        from haptools.__main__ import main

        args = ["simgenotype", "--model", str(d / "model.dat"), "--mapdir", str(d / "maps"), "--chroms", ",".join(chroms), "--popsize", str(case["popsize"]), "--seed", str(case["seed"] % 2**32), "--only_breakpoint", "--out", (cli_out := str(out) + (".vcf", ".vcf.gz", ".bcf", ".pgen")[case["seed"] % 4]), "--ref_vcf", "x.vcf", "--sample_info", "x.tab"]
        if case["region"]:
            args += ["--region", f"{case['region']['chr']}:{case['region']['start']}-{case['region']['end']}"]
        r = CliRunner().invoke(main, args, catch_exceptions=True)
        if r.exit_code != 0:
            return {"error": "cli_exit", "msg": (str(r.exception) or r.output)[-200:]}
        bp_path = C.model_bp_prefix(cli_out) + ".bp"  # the place the Lean model of the --out handling names (OutPrefix.bpPrefix)
    elif case.get("plain_api"):
        try:
            ns, pd, bps = sg.simulate_gt(str(d / "model.dat"), str(d / "maps"), chroms, case["region"], case["popsize"], SD.silent_log(), case["seed"])
            sg.write_breakpoints(ns, pd, bps, str(out), SD.silent_log())
        except Exception as e:  # noqa
            return {"error": "api_raised", "msg": type(e).__name__ + ": " + str(e)[:200]}
        bp_path = str(out) + ".bp"
    else:
        r = SD.instrumented_simulate(str(d / "model.dat"), str(d / "maps"), chroms, case["region"], case["popsize"], case["seed"])
        # index tape of write_breakpoints
        import numpy as np

        with SD.record_random() as rp:
            sg.write_breakpoints(r["num_samples"], r["pop_dict"], r["final"], str(out), SD.silent_log())
        with C.glue("reading the haplotype indices write_breakpoints drew"):
            idx = [int(x) for x in rp.log[-1][3]]
        final = [[SD.seg_t(s) for s in h] for h in r["final"]]
        tapes = {"idx": idx, "final": final, "pop_dict": {int(k): v for k, v in r["pop_dict"].items()}}
        bp_path = str(out) + ".bp"
        gens = c01.gens_of(r)
        _runs[C.jdump(case)] = {"gens": gens, "idx": idx, "pop_dict": tapes["pop_dict"], "maps": case["maps"], "region": case["region"]}
    text = open(bp_path).read()
    lines = [l.split("\t") for l in text.splitlines()]
    # haptools' own readers
    readers = {}
    try:
        b = Breakpoints.load(bp_path)
        readers["breakpoints"] = {k: [[(str(x["pop"]), str(x["chrom"]), int(x["bp"]), float(x["cm"])) for x in st] for st in v] for k, v in b.data.items()}
    except Exception as e:
        readers["breakpoints"] = {"error": type(e).__name__ + ":" + str(e)[:80]}
    try:
        first = lines[0][0].rsplit("_", 1)[0]
        kb = GetHaplotypeBlocks(bp_path, first)
        readers["karyogram"] = [[(x["pop"], x["chrom"], round(x["end"] * 10000)) for x in st] for st in kb]
    except BaseException as e:
        readers["karyogram"] = {"error": type(e).__name__ + ":" + str(e)[:80]}
    return {"lines": lines, "readers": readers, "tapes": tapes}


_runs = {}


def model_req(case):
    """the whole run inside the model (Plan.simulateAll on the recorded tapes, starting from nothing)"""
    r = _runs.get(C.jdump(case))
    if not r or not c01._chainable(r["gens"]):
        return {"op": "batch", "reqs": []}
    g0 = r["gens"][0]
    return {"op": "batch", "reqs": [dict(op="simAll", chroms=g0["chroms"], cmEnd=g0["cmEnd"], gens=[g["tapes"] for g in r["gens"]])]}


def model_obs(case, resp):
    """the .bp lines the model's final generation gives for the haplotype indices write_breakpoints drew"""
    r = _runs.get(C.jdump(case))
    if not r or not resp.get("resps") or not isinstance(resp["resps"][0].get("gens"), list):
        return {"lines": None}
    final = resp["resps"][0]["gens"][-1]
    return {"lines": expected_lines({"idx": r["idx"], "final": final, "pop_dict": r["pop_dict"]})}


def tape_on_map(case):
    """hypotheses of C02.cm_never_decreases on the recorded tapes: every event closes its tract at a marker of the map
    (bp, cM), every chromosome is closed at the cM of its last marker; returns a description of the first offence"""
    r = _runs.get(C.jdump(case))
    if not r:
        return None
    for gi, g in enumerate(r["gens"]):
        for ci, c in enumerate(g["chroms"]):
            name = "X" if c == 23 else str(c)
            mk = r["maps"][name]
            if r["region"]:
                # the map restricted to the region (first marker >= start … first marker >= end)
                pass
            if g["cmEnd"][ci] not in [m for _, m in mk]:
                return f"generation {gi}: chromosome {c} is closed at cM {g['cmEnd'][ci]}, not a marker of its map"
        for t in g["tapes"] or []:
            for ci, bp, cm in t["events"]:
                c = g["chroms"][ci]
                mk = r["maps"]["X" if c == 23 else str(c)]
                if (bp, cm) not in [(b, m) for b, m in mk]:
                    return f"generation {gi}: a recombination closes a tract at ({bp} bp, {cm} cM), not a marker of chromosome {c}'s map"
    return None


def expected_lines(tapes):
    out = []
    for ind, k in enumerate(tapes["idx"]):
        out.append([f"Sample_{ind // 2 + 1}_{ind % 2 + 1}"])
        for s in tapes["final"][k]:
            out.append([tapes["pop_dict"][s[0]], str(s[1]), str(s[2]), repr(float(s[3]))])
    return out


def equal(a, b):
    if b.get("lines") is None:
        return a.get("tapes") is None or "error" in a  # CLI runs are not instrumented: nothing to compare
    return a.get("lines") == b["lines"]


def oracle(case, obs):
    """every clause of the property, evaluated on the .bp text itself"""
    if "error" in obs:
        return f"simgenotype failed on a valid model: {obs}"
    n, pops, glines = case["model"]
    chroms = [case["region"]["chr"]] if case["region"] else case["chroms"]
    cnum = [23 if c == "X" else int(c) for c in chroms]
    lines = obs["lines"]
    contributing = {pops[i] for g, fr in glines for i, x in enumerate(fr[1:]) if x > 0}
    # framing
    heads = [(i, l[0]) for i, l in enumerate(lines) if len(l) == 1]
    if [h for _, h in heads] != [f"Sample_{i // 2 + 1}_{i % 2 + 1}" for i in range(2 * n)]:
        return f"strand headers {[h for _, h in heads][:6]}… are not Sample_1_1, Sample_1_2, …, Sample_{n}_2"
    bounds = [i for i, _ in heads] + [len(lines)]
    for hi in range(len(heads)):
        blocks = lines[bounds[hi] + 1 : bounds[hi + 1]]
        k = 0
        for c in cnum:
            prev_bp, prev_cm = -1, None
            while True:
                if k >= len(blocks):
                    return f"{heads[hi][1]}: chromosome {c} is not closed by the sentinel"
                pop, ch, bp, cm = blocks[k]
                k += 1
                if int(ch) != c:
                    return f"{heads[hi][1]}: block {blocks[k-1]} where chromosome {c} was expected (requested order {cnum})"
                if int(bp) <= prev_bp:
                    return f"{heads[hi][1]} chr{c}: bp ends not strictly increasing ({prev_bp} then {bp})"
                if prev_cm is not None and float(cm) < prev_cm:
                    return f"{heads[hi][1]} chr{c}: cM ends decrease ({prev_cm} then {cm})"
                if pop not in contributing:
                    return f"{heads[hi][1]}: label {pop!r} is not a source population with a positive fraction ({sorted(contributing)})"
                prev_bp, prev_cm = int(bp), float(cm)
                if prev_bp == MAX:
                    break
        if k != len(blocks):
            return f"{heads[hi][1]}: {len(blocks)-k} blocks after the last requested chromosome"
    # readers
    rb = obs["readers"]["breakpoints"]
    if "error" in rb:
        return f"Breakpoints.load rejects the file: {rb}"
    if list(rb.keys()) != [f"Sample_{i+1}" for i in range(n)]:
        return f"Breakpoints.load sees samples {list(rb.keys())}"
    for si, (name, strands) in enumerate(rb.items()):
        for k2 in (0, 1):
            blocks = lines[bounds[2 * si + k2] + 1 : bounds[2 * si + k2 + 1]]
            # the reader keeps population labels in a six-character field (C05 states its range as labels of up to six characters):
            # what is compared for longer labels is what the reader can hold of them, the file itself is judged in full above
            want = [(b[0][:6], b[1], int(b[2]), float(b[3])) for b in blocks]
            if [(x[0][:6], *x[1:]) for x in strands[k2]] != want:
                return f"Breakpoints.load returns {strands[k2]} for {name}_{k2+1}, the file says {want}"
    rk = obs["readers"]["karyogram"]
    if isinstance(rk, dict) or len(rk) != 2:
        return f"karyogram reader does not accept the file: {rk}"
    for k2 in (0, 1):
        # … and what it accepts is what the file says about the first sample: every block, with its label, chromosome and cM end
        blocks = lines[bounds[k2] + 1 : bounds[k2 + 1]]
        want = [(b[0], int(b[1]), round(float(b[3]) * 10000)) for b in blocks]
        got = [(x[0], int(x[1]), x[2]) for x in rk[k2]]
        if got != want:
            return f"the karyogram reader sees {got} on strand {k2 + 1} of the first sample, the file says {want}"
    # correspondence with the simulated population (when recorded): file = rendering of the drawn haplotypes
    t = obs["tapes"]
    if t is not None:
        if len(set(t["idx"])) != len(t["idx"]) or len(t["idx"]) != 2 * n:
            return f"write_breakpoints drew haplotype indices {t['idx']}"
        if expected_lines(t) != lines:
            return "the .bp text is not the rendering of the drawn simulated haplotypes"
        off = tape_on_map(case)
        if off:
            return off
    return None


def describe(case, obs):
    return ["cli" if case["via_cli"] else "api", "after-a-region-run-on-the-same-maps" if case.get("prelude") else "first-run-on-these-maps", "region" if case["region"] else "whole", f"chroms={len(case['chroms']) if not case['region'] else 1}", f"samples={case['model'][0]}"]


CHECK = Check(
    id="C02",
    title="Breakpoint output tiles every simulated chromosome and respects the model",
    theorems=["C02.simulate_tiles", "C02.haplotype_wellformed", "C02.labels_from_parents", "C02.every_haplotype_tiles", "C02.cm_never_decreases", "C02.labels_are_sources", "C02.write_framing", "C02.bp_reader_accepts", "C19.breakpoints_prefix_of_out"],
    sections=[
        Section(
            name="bp_output",
            theorems=["C02.simulate_tiles", "C02.haplotype_wellformed", "C02.labels_from_parents", "C02.every_haplotype_tiles", "C02.cm_never_decreases", "C02.labels_are_sources", "C02.write_framing", "C02.bp_reader_accepts", "C19.breakpoints_prefix_of_out"],
            gen=gen,
            impl=impl,
            model_req=model_req,
            model_obs=model_obs,
            equal=equal,
            oracle=oracle,
            describe=describe,
            setup=setup,
            teardown=teardown,
            nontrivial=lambda c, o: C.jdump(c) if isinstance(o, dict) and "lines" in o and len(o["lines"]) > 2 * c["model"][0] * (1 + (1 if c["region"] else len(c["chroms"]))) else None,
            rule="the model/map/region generator of C01 (1-4 generation lines incl. zero fractions and pulses, 2-4 source populations, 1-4 chromosomes incl. X, 2-10 markers, optional region, 1-5 samples), through simulate_gt + write_breakpoints (a third of the whole-chromosome cases after an earlier --region simulation on the same map files in the same process; every 3rd case through the `simgenotype --only_breakpoint` CLI (--out ending in .vcf, .vcf.gz, .bcf or .pgen: the breakpoints go to the name without that ending), with --popsize values below, at and above twice the sample count); the .bp text is checked clause by clause (order of chromosomes, strictly increasing bp ends, sentinel, non-decreasing cM, labels subset of contributing populations, Sample_i_1/_2 framing), read with Breakpoints.load and karyogram.GetHaplotypeBlocks, and compared with the rendering of the recorded simulated haplotypes drawn by the recorded index tape; for instrumented runs the decoded tapes of all generations are run through Plan.simulateAll (the function C02.every_haplotype_tiles / cm_never_decreases / labels_are_sources are about) and the file must be the rendering of the model's final generation at the drawn indices; the map hypotheses of cm_never_decreases (events close at map markers) are checked on every recorded tape; non-trivial = some haplotype has a recombination breakpoint",
        ),
        Section(
            name="fine_scale_maps_and_cut_fractions",
            theorems=["C02.write_framing", "C02.bp_reader_accepts"],
            gen=gen_fine,
            impl=impl,
            oracle=oracle,
            describe=lambda c, o: ["cli" if c["via_cli"] else "api", "some-cM-end-below-1e-4" if isinstance(o, dict) and any(len(l) == 4 and 0 < float(l[3]) < 1e-4 for l in o.get("lines", [])) else "all-cM-ends-ordinary", "row-sums-to-1-within-1e-7-only" if any(abs(sum(fr) - 1) > 1e-12 for _, fr in c["model"][2]) else "rows-sum-to-1"],
            setup=setup,
            teardown=teardown,
            nontrivial=lambda c, o: C.jdump(c),
            rule="outside the integer-cM model, judged by the clauses of the property on the .bp text and by haptools' own readers: maps with marker steps of 1e-6 to 1e-4 cM (cM ends below 1e-4 are written in exponent notation) next to ordinary ones, and model rows of repeating decimals cut after seven digits (0.3333333 x 3, 0.1428571 x 7: sums within 1e-7 of 1, accepted by the validator); API and --only_breakpoint",
        ),
    ],
    trusted=["np.random.choice(replace=False) returns distinct in-range indices; np.random.choice(p=fractions) never draws a population with fraction 0", "glob/re discovery of map files", "float repr of cM"],
    assumptions=["genetic maps have strictly increasing bp and non-decreasing cM; chromosome lists are sorted"],
    anchors=[("haptools/sim_genotype.py", ["_prepare_coords", "_simulate", "write_breakpoints", "simulate_gt", "get_segment"]), ("haptools/data/breakpoints.py", ["Breakpoints.__iter__"]), ("haptools/karyogram.py", ["GetHaplotypeBlocks"])],
)
