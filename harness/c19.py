"""C19 — CLI and Python entry points agree; list-in-file options equal repeated options."""
from __future__ import annotations

import hashlib
from pathlib import Path

from . import c19b
from . import common as C
from . import gtfiles as GF
from . import simdata as SD
from .run import Check, Section

_dir = None
NS, NV = 6, 6
SAMPLES = [f"s{i}" for i in range(NS - 1)] + ["twin A"]  # names are tab-delimited everywhere: one holds a blank
HAPS = ["hapA", "hapB", "hapC", "hapD", "block 7"]


def setup():
    global _dir
    import random

    _dir = C.scratch_dir("c19")
    d = _dir
    rnd = random.Random(19)
    samples = list(SAMPLES)
    variants = [(f"snp{chr(65+j)}", "1", 10 * (j + 1), ["A", "C"]) for j in range(NV)]
    data = [[(rnd.randint(0, 1), rnd.randint(0, 1), 1) for _ in variants] for _ in samples]
    GF.write_vcf_text(d / "g.vcf", samples, variants, data)
    GF.compress_index(d / "g.vcf", d / "g.vcf.gz")
    GF.write_pgen(d / "g", samples, variants, data)
    with open(d / "h.hap", "w") as f:
        f.write("H\t1\t10\t31\thapA\nH\t1\t20\t51\thapB\nH\t1\t40\t61\thapC\nH\t1\t10\t11\thapD\nH\t1\t20\t41\tblock 7\n")
        f.write("V\thapA\t10\t11\tsnpA\tC\nV\thapA\t30\t31\tsnpC\tA\nV\thapB\t20\t21\tsnpB\tC\nV\thapB\t50\t51\tsnpE\tC\nV\thapC\t40\t41\tsnpD\tA\nV\thapC\t60\t61\tsnpF\tC\nV\thapD\t10\t11\tsnpA\tA\nV\tblock 7\t20\t21\tsnpB\tA\nV\tblock 7\t40\t41\tsnpD\tC\n")
    ls = open(d / "h.hap").read().splitlines()
    hs_ = sorted([l.split("\t") for l in ls if l.startswith("H\t")], key=lambda f: (f[1], int(f[2]), int(f[3]), f[4]))
    vs_ = sorted([l.split("\t") for l in ls if l.startswith("V\t")], key=lambda f: (f[1], int(f[2]), int(f[3])))
    open(d / "hsorted.hap", "w").write("\n".join("\t".join(f) for f in hs_ + vs_) + "\n")
    with open(d / "hb.hap", "w") as f:  # with betas, for simphenotype
        f.write("#\torderH\tbeta\n#\tversion\t0.2.0\n#H\tbeta\t.2f\tEffect size\n")
        f.write("H\t1\t10\t31\thapA\t0.50\nH\t1\t20\t51\thapB\t-0.25\nH\t1\t40\t61\thapC\t0.10\n")
        f.write("V\thapA\t10\t11\tsnpA\tC\nV\thapA\t30\t31\tsnpC\tA\nV\thapB\t20\t21\tsnpB\tC\nV\thapB\t50\t51\tsnpE\tC\nV\thapC\t40\t41\tsnpD\tA\nV\thapC\t60\t61\tsnpF\tC\n")
    # pseudo-genotypes of the three haplotypes of hb.hap (what `transform` writes: one variant per haplotype, 1 where a strand
    # carries all of its alleles) – simphenotype's genotype input when the effects come from a .hap file
    alle = {v[0]: v[3] for v in variants}
    col = {v[0]: j for j, v in enumerate(variants)}
    hb = {"hapA": [("snpA", "C"), ("snpC", "A")], "hapB": [("snpB", "C"), ("snpE", "C")], "hapC": [("snpD", "A"), ("snpF", "C")]}
    pvars = [("hapA", "1", 10, ["A", "T"]), ("hapB", "1", 20, ["A", "T"]), ("hapC", "1", 40, ["A", "T"])]
    pdata = [[tuple(int(all(alle[v][row[col[v]][k]] == a for v, a in hb[h[0]])) for k in (0, 1)) + (1,) for h in pvars] for row in data]
    GF.write_vcf_text(d / "pg.vcf", samples, pvars, pdata)
    GF.compress_index(d / "pg.vcf", d / "pg.vcf.gz")
    GF.write_pgen(d / "pg", samples, pvars, pdata)
    with open(d / "unsorted.hap", "w") as f:  # not coordinate sorted: tabix refuses it with --no-sort
        f.write("H\t1\t40\t61\thapC\nH\t2\t10\t31\thapA\nH\t1\t20\t51\thapB\n")
        f.write("V\thapA\t10\t11\tsnpA\tC\nV\thapB\t20\t21\tsnpB\tC\nV\thapC\t40\t41\tsnpD\tA\n")
    # clump
    with open(d / "stats.txt", "w") as f:
        f.write("SNP\tCHR\tPOS\tP\n")
        for j, p in enumerate(["1e-8", "0.0001", "0.5", "1e-8", "0.03", "0.9"]):
            f.write(f"snp{chr(65+j)}\t1\t{10*(j+1)}\t{p}\n")
    # karyogram / simgenotype inputs
    with open(d / "k.bp", "w") as f:
        for s in ("Sample_1", "Sample_2"):
            for k in (1, 2):
                f.write(f"{s}_{k}\nYRI\t1\t100\t10.5\nCEU\t1\t2147483647\t50.0\nCEU\t2\t2147483647\t40.0\n")
    from . import c10

    c10.make_inputs(d / "sim", 7)
    return _dir


def teardown(_):
    C.rm_tree(_dir)


def run_cli(args, expect=None):
    from click.testing import CliRunner
    from haptools.__main__ import main

    glue = None
    if expect is None:
        r = CliRunner().invoke(main, [str(a) for a in args], catch_exceptions=True)
    else:
        # the call boundary: the command line must hand its entry point exactly the parameters the user gave (and the
        # documented defaults for everything else) – recorded by wrapping the entry point while the command runs
        import importlib
        import inspect

        modname, fname, kwargs, ignore = expect
        mod = importlib.import_module(modname)
        orig = getattr(mod, fname)
        calls = []

        def wrapper(*a, **k):
            b = inspect.signature(orig).bind(*a, **k)
            b.apply_defaults()
            calls.append(dict(b.arguments))
            return orig(*a, **k)

        setattr(mod, fname, wrapper)
        try:
            r = CliRunner().invoke(main, [str(a) for a in args], catch_exceptions=True)
        finally:
            setattr(mod, fname, orig)
        if len(calls) == 1:
            want = inspect.signature(orig).bind(**kwargs)
            want.apply_defaults()
            diffs = []
            for name, w in want.arguments.items():
                if name in ignore:
                    continue
                g = calls[0].get(name)
                if modname == "haptools.ld" and name == "ids" and g is not None and w is not None:
                    # calc_ld lists every requested ID once, in the order of first mention: repeats may be dropped on either side
                    g, w = tuple(dict.fromkeys(g)), tuple(dict.fromkeys(w))
                if _canon_arg(g) != _canon_arg(w):
                    diffs.append(f"{name}: the command line passes {g!r}, the options given mean {w!r}")
            glue = "; ".join(diffs) or None
        elif len(calls) > 1:
            glue = f"{fname} was called {len(calls)} times"
    return {"exit": r.exit_code, "usage_error": r.exit_code == 2, "exc": type(r.exception).__name__ if r.exception and not isinstance(r.exception, SystemExit) else None, "glue": glue}


def _canon_arg(v):
    from pathlib import Path as _P

    if isinstance(v, (set, frozenset)):
        return ["set"] + sorted(map(str, v))
    if isinstance(v, (list, tuple)):
        return ["seq"] + [str(x) for x in v]
    if isinstance(v, _P):
        return str(v)
    if isinstance(v, float):
        return repr(float(v))
    return v


def read_vcf(path):
    import pysam

    vf = pysam.VariantFile(str(path))
    return {"samples": list(vf.header.samples), "records": [[r.id, r.pos, [list(s["GT"]) for s in r.samples.values()]] for r in vf]}


def text(path):
    return open(path).read()


def write_list(path, items):
    open(path, "w").write("\n".join(items) + ("\n" if items else ""))
    return path


def gen(rng, tier):
    n = 78 if tier == "quick" else 1300
    kinds = ["transform", "transform", "simphenotype", "ld", "ld", "index", "clump", "simgenotype", "karyogram", "both_forms", "ld", "karyogram", "ld"]
    absent_names = ["Sample_9", "Sample", "Sample_", "Sample_1_1", "Sam", "sample_1"]
    haps, snps, samples = list(HAPS), [f"snp{chr(65+j)}" for j in range(NV)], list(SAMPLES)
    for t in range(n):
        k = kinds[t % len(kinds)]
        c = {"kind": k, "short": rng.random() < 0.5, "pgen": rng.random() < 0.3}
        if k == "clump":
            c["clump_cfg"] = t // len(kinds)  # the k-th clump case takes the k-th threshold combination
        pool_ids = haps
        if k == "ld":
            c["from_gts"] = rng.random() < 0.6
            c["target"] = rng.choice(["hapA", "hapB"] + (["snpB"] if c["from_gts"] else []))
            pool_ids = snps if c["from_gts"] else [h for h in haps if h != c["target"]]
        if k == "simphenotype":
            pool_ids = haps[:3]
        ids = None
        many_unknown = k == "simphenotype" and (t // len(kinds)) % 2 == 1  # every other simphenotype case
        if many_unknown or rng.random() < 0.7:
            ids = rng.sample(pool_ids, rng.randint(1, len(pool_ids)))  # in a non-alphabetical order
            if not many_unknown and rng.random() < 0.25:
                ids.insert(rng.randrange(len(ids) + 1), "nosuchID")
            elif many_unknown or rng.random() < 0.2:
                # many unknown IDs (more than any message would list in full), scattered among the known ones
                for i in range(rng.randint(6, 9)):
                    ids.insert(rng.randrange(len(ids) + 1), f"nosuchID{i}x")
            if k == "ld" and c["from_gts"] and rng.random() < 0.5:
                # as many unknown IDs as variants of the target haplotype that are not requested
                tv = {"hapA": ["snpA", "snpC"], "hapB": ["snpB", "snpE"]}.get(c["target"], [])
                ids = [x for x in ids if x != "nosuchID"]
                miss = [v for v in tv if v not in ids]
                ids += [f"nosuchID{i}" for i in range(len(miss))]
                rng.shuffle(ids)
                ids = ids or ["snpD"]
            if rng.random() < (0.45 if k == "ld" else 0.2):
                ids.append(ids[0])  # a duplicate
        c["ids"] = ids
        smp = None
        if rng.random() < 0.5:
            smp = rng.sample(samples, rng.randint(2, NS))
            if rng.random() < (0.6 if c["pgen"] else 0.3):
                # an unknown sample: unrelated, or a longer name that begins with a known one
                smp.append(rng.choice(["ghost", "twin A2", "twin A2", "s0_extra", "s12"]))  # "twin A2" is longer than every name in the file
                if smp[-1] == "twin A2" and "twin A" in smp and len(smp) > 2:
                    smp.remove("twin A")  # the known name it extends is not requested itself
        if t % 20 == 1 and k in ("transform", "ld", "simphenotype"):
            # PGEN input and an unknown sample that is longer than every name in the file and begins with one of them
            c["pgen"] = True
            smp = rng.sample(SAMPLES[:-1], 2) + ["twin A2"]
        c["samples"] = smp
        c["sort"] = rng.random() < 0.6
        # further options that must reach the entry point unchanged (each on its own is exercised elsewhere)
        pool = {"transform": ["discard_missing", "maf", "chunk"], "simphenotype": ["environment", "prevalence", "no_normalize", "chunk"], "ld": ["discard_missing", "chunk"]}.get(k, [])
        c["extras"] = sorted(rng.sample(pool, rng.randint(0, len(pool)))) if pool else []
        c["failing"] = k == "index" and rng.random() < 0.5
        # karyogram: every other case names a sample that is absent, going through the absent names in turn (a prefix of a
        # present name, a strand ID, another capitalisation, …)
        kth = sum(1 for u in range(t) if kinds[u % len(kinds)] == "karyogram")
        c["absent_sample"] = k == "karyogram" and kth % 2 == 0
        c["absent_name"] = absent_names[(kth // 2) % len(absent_names)]
        c["seed"] = rng.randrange(2**31)
        yield c


def impl(case):
    d = _dir
    k = case["kind"]
    o = d / "out"
    C.rm_tree(o)
    o.mkdir()
    gf = d / ("g.pgen" if case["pgen"] else "g.vcf.gz")
    ids, smp = case["ids"], case["samples"]
    sh = case["short"]
    idopt, idfile = ("-i", "-I") if sh else ("--id", "--ids-file")
    sopt, sfile = ("-s", "-S") if sh else ("--sample", "--samples-file")
    rep_ids = [x for i in (ids or []) for x in (idopt, i)]
    rep_smp = [x for s in (smp or []) for x in (sopt, s)]
    file_ids = [idfile, write_list(o / "ids.txt", ids)] if ids else []
    file_smp = [sfile, write_list(o / "smp.txt", smp)] if smp else []
    res = {}
    xargs, xkw = [], {}
    for e in case.get("extras", []):
        if e == "discard_missing":
            xargs += ["--discard-missing"]
            xkw["discard_missing"] = True
        elif e == "maf":
            xargs += ["--maf", "0.05"]
            xkw["maf"] = 0.05
        elif e == "chunk":
            xargs += ["-c" if sh else "--chunk-size", "3"]
            xkw["chunk_size"] = 3
        elif e == "environment":
            xargs += ["--environment", "0.4"]  # has no short spelling
            xkw["environment"] = 0.4
        elif e == "prevalence":
            xargs += ["-p" if sh else "--prevalence", "0.25"]
            xkw["prevalence"] = 0.25
        elif e == "no_normalize":
            xargs += ["--no-normalize"]
            xkw["normalize"] = False
    if k == "transform":
        from haptools.transform import transform_haps

        kw = dict(genotypes=gf, haplotypes=d / "h.hap", samples=set(smp) if smp else None, haplotype_ids=set(ids) if ids else None, **xkw)
        exp = ("haptools.transform", "transform_haps", dict(kw, output=o / "a.vcf"), {"log", "output"})
        res["cli_rep"] = run_cli(["transform", *xargs, *rep_ids, *rep_smp, "-o", o / "a.vcf", gf, d / "h.hap"], exp)
        res["cli_file"] = run_cli(["transform", *xargs, *file_ids, *file_smp, "--output", o / "b.vcf", gf, d / "h.hap"], exp)
        import warnings

        with C.capture_logs() as cap, warnings.catch_warnings(record=True) as pyw:
            warnings.simplefilter("always")
            api = C.guarded(lambda: transform_haps(**kw, output=o / "c.vcf", log=cap.logger) and None)
        res["api_error"] = api
        # a report = a haptools log warning, or the warning cyvcf2 issues for requested samples absent from a VCF
        res["reported"] = any(l == "WARNING" for l, _ in cap.records) or any("requested samples" in str(w.message) for w in pyw)
        res["out"] = [read_vcf(o / f) if (o / f).exists() else None for f in ("a.vcf", "b.vcf", "c.vcf")]
        unknown = (ids and any(x.startswith("nosuchID") for x in ids)) or (smp and any(x not in SAMPLES for x in smp))
        if unknown:
            # the report must also come out of the command line when the Python entry point ran before it in the same
            # process with its default logger (library logging is switched back on for this one observation)
            import logging

            logging.disable(logging.NOTSET)
            try:
                C.guarded(lambda: transform_haps(gf, d / "h.hap", samples=set(smp) if smp else None, haplotype_ids=set(ids) if ids else None, output=o / "d.vcf") and None)
                from click.testing import CliRunner
                from haptools.__main__ import main

                with warnings.catch_warnings(record=True) as pyw2:
                    warnings.simplefilter("always")
                    r2 = CliRunner().invoke(main, [str(a) for a in ["transform", *rep_ids, *rep_smp, "-o", o / "e.vcf", gf, d / "h.hap"]], catch_exceptions=True)
                try:
                    txt = r2.stderr
                except Exception:  # noqa: older click mixes stderr into output
                    txt = r2.output
                res["cli_reported_after_api"] = ("WARNING" in (txt or "")) or any("requested samples" in str(w.message) for w in pyw2)
            finally:
                logging.disable(logging.CRITICAL)
    elif k == "simphenotype":
        from haptools.sim_phenotype import simulate_pt

        common = ["--seed", "11", "-r" if sh else "--replications", "2", "-h" if sh else "--heritability", "0.5"]
        gf = d / ("pg.pgen" if case["pgen"] else "pg.vcf.gz")  # the haplotypes' pseudo-genotypes
        kw = dict(genotypes=gf, haplotypes=d / "hb.hap", num_replications=2, heritability=0.5, samples=set(smp) if smp else None, haplotype_ids=set(ids) if ids else None, seed=11, **xkw)
        exp = ("haptools.sim_phenotype", "simulate_pt", dict(kw, output=o / "a.pheno"), {"log", "output"})
        res["cli_rep"] = run_cli(["simphenotype", *common, *xargs, *rep_ids, *rep_smp, "-o", o / "a.pheno", gf, d / "hb.hap"], exp)
        res["cli_file"] = run_cli(["simphenotype", *common, *xargs, *file_ids, *file_smp, "--output", o / "b.pheno", gf, d / "hb.hap"], exp)
        with C.capture_logs() as cap:
            res["api_error"] = C.guarded(lambda: simulate_pt(**kw, output=o / "c.pheno", log=cap.logger))
        res["reported"] = any(l in ("WARNING", "ERROR", "CRITICAL") for l, _ in cap.records)
        res["out"] = [text(o / f) if (o / f).exists() else None for f in ("a.pheno", "b.pheno", "c.pheno")]
    elif k == "ld":
        from haptools.ld import calc_ld

        ext = ".ld" if case["from_gts"] else ".hap"
        fg = ["--from-gts"] if case["from_gts"] else []
        kw = dict(target=case["target"], genotypes=gf, haplotypes=d / "h.hap", samples=set(smp) if smp else None, ids=tuple(ids) if ids else None, from_gts=case["from_gts"], **xkw)
        exp = ("haptools.ld", "calc_ld", dict(kw, output=o / ("a" + ext)), {"log", "output"})
        res["cli_rep"] = run_cli(["ld", *fg, *xargs, *rep_ids, *rep_smp, "-o", o / ("a" + ext), case["target"], gf, d / "h.hap"], exp)
        res["cli_file"] = run_cli(["ld", *fg, *xargs, *file_ids, *file_smp, "--output", o / ("b" + ext), case["target"], gf, d / "h.hap"], exp)
        res["api_error"] = C.guarded(lambda: calc_ld(**kw, output=o / ("c" + ext), log=SD.silent_log()))
        res["out"] = [[l for l in text(o / (f + ext)).splitlines() if not l.startswith("#")] if (o / (f + ext)).exists() else None for f in ("a", "b", "c")]
    elif k == "index":
        import gzip
        import shutil

        from haptools.index import index_haps

        sort = case["sort"] and not case["failing"]
        # --no-sort needs an input tabix accepts as it is: the same records in coordinate order (H lines, then V lines by haplotype)
        src = "unsorted.hap" if case["failing"] else ("h.hap" if sort else "hsorted.hap")
        for tag in ("a", "c"):
            shutil.copy(d / src, o / f"{tag}.hap")
        res["cli_rep"] = run_cli(["index", "--sort" if sort else "--no-sort", "-o" if sh else "--output", o / "a.hap.gz", o / "a.hap"])
        res["cli_file"] = res["cli_rep"]
        res["api_error"] = C.guarded(lambda: index_haps(o / "c.hap", sort=sort, output=o / "c.hap.gz", log=SD.silent_log()))
        res["out"] = [gzip.open(o / f, "rt").read() if (o / f).exists() and (o / (f + ".tbi")).exists() else None for f in ("a.hap.gz", "a.hap.gz", "c.hap.gz")]
        if not case["failing"]:
            # no --output, and the input is a symbolic link (a file staged into a work directory): the default output belongs
            # beside the name the user gave, for the command line as for the Python entry point
            import os

            files = {}
            for tag in ("cli", "api"):
                (o / tag / "store").mkdir(parents=True)
                (o / tag / "work").mkdir()
                shutil.copy(d / src, o / tag / "store" / "panel.hap")
                os.symlink(o / tag / "store" / "panel.hap", o / tag / "work" / "panel.hap")
                if tag == "cli":
                    run_cli(["index", "--sort" if sort else "--no-sort", o / tag / "work" / "panel.hap"])
                else:
                    C.guarded(lambda: index_haps(o / tag / "work" / "panel.hap", sort=sort, log=SD.silent_log()))
                files[tag] = sorted(str(p.relative_to(o / tag)) for p in (o / tag).rglob("*") if p.is_file() or p.is_symlink())
            res["symlink_files"] = files
    elif k == "clump":
        from haptools.clump import clumpstr

        # thresholds as the case fixes them: index threshold above, at and below the inclusion threshold, windows, r2, both LD modes
        sd_ = case.get("clump_cfg", case["seed"])
        p1, p2 = [(0.05, 0.001), (0.001, 0.01), (0.6, 0.01), (0.0001, 0.05), (0.05, 0.0001), (0.001, 1.0), (0.6, 0.6), (0.05, 0.05)][sd_ % 8]
        kb = [0.05, 0.02, 250.0][sd_ % 3]
        r2 = [0.2, 0.5, 0.8][(sd_ // 3) % 3]
        ldm = ["Pearson", "Exact"][(sd_ // 2) % 2]
        args = ["--summstats-snps", d / "stats.txt", "--gts-snps", d / "g.vcf", "--clump-p1", str(p1), "--clump-p2", str(p2), "--clump-kb", str(kb), "--clump-r2", str(r2), "--clump-id-field", "SNP", "--clump-field", "P", "--clump-chrom-field", "CHR", "--clump-pos-field", "POS", "--ld", ldm]
        res["cli_rep"] = run_cli(["clump", *args, "--out", o / "a.clump"])
        res["cli_file"] = res["cli_rep"]
        res["api_error"] = C.guarded(lambda: clumpstr(str(d / "stats.txt"), None, str(d / "g.vcf"), None, p1, p2, "SNP", "P", "CHR", "POS", kb, r2, ldm, str(o / "c.clump"), SD.silent_log()))
        res["out"] = [text(o / f) if (o / f).exists() else None for f in ("a.clump", "a.clump", "c.clump")]
    elif k == "simgenotype":
        import haptools.sim_genotype as sg

        s = d / "sim"
        seed = case["seed"] % 1000
        # every other run writes to a name that holds a genotype extension before its last one (cohort.pgen.sim.vcf): the
        # breakpoints belong next to it, under the name without the last extension
        stem = "a" if case["seed"] % 2 else "from.pgen.sim"
        res["cli_rep"] = run_cli(["simgenotype", "--model", s / "model.dat", "--mapdir", s / "maps", "--chroms", "1,2", "--seed", seed, "--ref_vcf", s / "ref.vcf.gz", "--sample_info", s / "info.tab", "--pop_field", "--out", o / (stem + ".vcf")])
        res["cli_file"] = res["cli_rep"]

        def api():
            popsize = sg.validate_params(str(s / "model.dat"), str(s / "maps"), ["1", "2"], 10000, str(s / "ref.vcf.gz"), str(s / "info.tab"), False, None, False)
            n, pd, bps = sg.simulate_gt(str(s / "model.dat"), str(s / "maps"), ["1", "2"], None, popsize, SD.silent_log(), seed)
            bps = sg.write_breakpoints(n, pd, bps, str(o / "c"), SD.silent_log())
            sg.output_vcf(bps, ["1", "2"], str(s / "model.dat"), str(s / "ref.vcf.gz"), str(s / "info.tab"), None, True, False, False, str(o / "c.vcf"), SD.silent_log())

        res["api_error"] = C.guarded(api)
        from pathlib import Path

        # the command's breakpoints are looked for where the Lean model of its --out handling puts them (OutPrefix.bpPrefix)
        cli_bp = Path(C.model_bp_prefix(o / (stem + ".vcf")) + ".bp")
        bp_text = lambda pth: text(pth) if pth.exists() else f"no breakpoints file at the documented place ({pth.name})"
        res["out"] = [(bp_text(bpf), read_vcf(o / (f + ".vcf"))) if (o / (f + ".vcf")).exists() else None for f, bpf in ((stem, cli_bp), (stem, cli_bp), ("c", o / "c.bp"))]
    elif k == "karyogram":
        import contextlib
        import io

        from haptools.karyogram import PlotKaryogram
        from haptools.logging import getLogger

        # absent names: an unrelated one, an underscore-delimited prefix of the present names, a present name's strand ID
        name = case.get("absent_name", "Sample_9") if case["absent_sample"] else "Sample_2"
        with contextlib.redirect_stderr(io.StringIO()):
            res["cli_rep"] = run_cli(["karyogram", "--bp", d / "k.bp", "--sample", name, "--out", o / "a.png", "--colors", "YRI:red,CEU:blue"])
            res["cli_file"] = res["cli_rep"]

            def api():
                try:
                    PlotKaryogram(str(d / "k.bp"), name, str(o / "c.png"), centromeres_file=None, title=None, colors={"YRI": "red", "CEU": "blue"}, log=getLogger("k", "CRITICAL"))
                except SystemExit as e:
                    return {"error": "system_exit", "msg": str(e.code)}

            res["api_error"] = C.guarded(api)
        res["out"] = [(o / f).exists() for f in ("a.png", "a.png", "c.png")]
    elif k == "both_forms":
        smp = smp or ["s0", "s1"]
        rep_smp = [x for s_ in smp for x in (sopt, s_)]
        # the file names the same samples, or (a fixed share) is empty / holds one blank line: both forms were given all the same
        file_smp = [sfile, write_list(o / "smp.txt", smp)]
        if case["seed"] % 4 == 1:
            open(o / "smp.txt", "w").write("" if case["seed"] % 8 == 1 else "\n")
        # the two forms in either order on the command line, and split around other options
        both = {0: [*rep_smp, *file_smp], 1: [*file_smp, *rep_smp], 2: [*rep_smp[:2], *file_smp, *rep_smp[2:]]}[case["seed"] % 3]
        res["cli_rep"] = run_cli(["transform", *both, "-o", o / "a.vcf", gf, d / "h.hap"])
        res["cli_file"] = run_cli(["ld", *both, "-o", o / "b.hap", "hapA", gf, d / "h.hap"])
        res["third"] = run_cli(["simphenotype", *both, "-o", o / "c.pheno", gf, d / "hb.hap"])
        res["api_error"] = None
        res["out"] = [(o / "a.vcf").exists(), (o / "b.hap").exists(), (o / "c.pheno").exists()]
    return res


def oracle(case, obs):
    if "error" in obs:
        return f"harness could not run the case: {obs}"
    k = case["kind"]
    a, b, c = obs["out"]
    api_failed = isinstance(obs.get("api_error"), dict) and "error" in obs["api_error"]
    if k == "both_forms":
        for name, r in (("transform", obs["cli_rep"]), ("ld", obs["cli_file"]), ("simphenotype", obs["third"])):
            if not r["usage_error"]:
                return f"{name}: giving both --sample and --samples-file exited with {r['exit']} instead of a usage error"
        if any(obs["out"]):
            return "output was written although both forms of sample selection were given"
        return None
    for tag, r in (("repeated-option CLI", obs["cli_rep"]), ("file-option CLI", obs["cli_file"])):
        if isinstance(r, dict) and r.get("glue"):
            return f"{k}: the {tag} run does not hand its entry point the parameters it was given – {r['glue']}"
    # a failing run exits non-zero; a succeeding one exits zero
    for tag, r, out in (("repeated-option CLI", obs["cli_rep"], a), ("file-option CLI", obs["cli_file"], b)):
        if api_failed and r["exit"] == 0:
            return f"{k}: the Python entry point fails ({obs['api_error']}) but the {tag} run exited with status 0"
        if not api_failed and r["exit"] != 0:
            return f"{k}: the {tag} run exited with {r['exit']} ({r['exc']}) although the Python entry point succeeds"
    # a run that produced no (complete) output has failed, whatever the entry point claims
    for tag, r, out in (("repeated-option CLI", obs["cli_rep"], a), ("file-option CLI", obs["cli_file"], b)):
        if r["exit"] == 0 and (out is None or out is False):
            return f"{k}: the {tag} run produced no complete output (e.g. no index was built) but exited with status 0"
    sf = obs.get("symlink_files")
    if sf and sf["cli"] != sf["api"]:
        return f"index without --output on a symbolic link: the command line leaves {sf['cli']}, the Python entry point {sf['api']}"
    if sf and "work/panel.hap.gz" not in sf["cli"]:
        return f"index without --output on work/panel.hap (a symbolic link) did not write work/panel.hap.gz: {sf['cli']}"
    if case.get("failing") and obs["cli_rep"]["exit"] == 0:
        return f"{k}: --no-sort on a file that is not coordinate sorted cannot be indexed, yet the command exited with status 0"
    if case.get("absent_sample") and obs["cli_rep"]["exit"] == 0:
        return f"{k}: a sample absent from the breakpoints file must be reported as an error (non-zero exit)"
    if k == "simphenotype" and case["ids"] is not None:
        # unknown IDs are reported and ignored: the phenotype is simulated from the known ones (the column is named after them)
        known = [h for h in ("hapA", "hapB", "hapC") if h in case["ids"]]
        unknown = [x for x in case["ids"] if x not in ("hapA", "hapB", "hapC")]
        if known and unknown:
            if api_failed:
                return f"simphenotype with the IDs {case['ids']} fails ({obs['api_error']}) instead of reporting and ignoring the unknown ones {unknown}"
            if not obs.get("reported"):
                return f"simphenotype dropped the unknown IDs {unknown} without any report"
        if known and not api_failed and a:
            head = a.splitlines()[0].split("\t")[1]
            if any(u in head for u in unknown) or not all(h in head for h in known):
                return f"simphenotype names its phenotype {head!r} for requested IDs {case['ids']} (known: {known})"
    if api_failed:
        return None
    if a != c:
        return f"{k}: the CLI output differs from the Python entry point's output for the same parameters: {str(a)[:300]} vs {str(c)[:300]}"
    if a != b:
        return f"{k}: giving IDs/samples in a file is not equivalent to repeating --id/--sample: {str(a)[:300]} vs {str(b)[:300]}"
    if k == "ld" and case["ids"] is not None:
        # unknown IDs are ignored, never replaced by others: what is listed is what was requested and exists
        if case["from_gts"]:
            listed = [l.split("\t")[2] for l in a if l.split("\t")[0] != "CHR"]
            known = [f"snp{chr(65+j)}" for j in range(NV)]
            allowed = set(case["ids"]) | ({case["target"]} if case["target"] in known else set())
        else:
            listed = [l.split("\t")[4] for l in a if l.startswith("H\t")]
            known = [h for h in HAPS if h != case["target"]]
            allowed = set(case["ids"])
        extra = [x for x in listed if x not in allowed]
        if extra:
            return f"ld listed {extra}, which were not requested (requested {case['ids']}): unknown IDs must be ignored, never replaced by others"
        lost = [x for x in dict.fromkeys(case["ids"]) if x in known and x not in listed]
        if lost:
            return f"ld did not list the requested IDs {lost} (listed {listed})"
    if k == "transform":
        known_h = list(HAPS)
        want = [h for h in known_h if case["ids"] is None or h in case["ids"]]
        got = [r[0] for r in a["records"]]
        if "maf" in case.get("extras", []):
            # --maf additionally drops haplotypes whose frequency among the chosen samples is below the threshold
            it = iter(want)
            if not all(any(x == y for y in it) for x in got):
                return f"transform --maf listed {got}, not a selection (in order) of the requested known IDs {want}"
        elif got != want:
            return f"transform listed {got} for requested IDs {case['ids']} (unknown IDs must be ignored, never replaced)"
        ws = [s for s in SAMPLES if case["samples"] is None or s in case["samples"]]
        if a["samples"] != ws:
            return f"transform output samples {a['samples']} for requested {case['samples']}"
        unknown = (case["ids"] and any(x.startswith("nosuchID") for x in case["ids"])) or (case["samples"] and any(x not in SAMPLES for x in case["samples"]))
        if unknown and not obs["reported"]:
            return "unknown IDs / samples were dropped without being reported"
        if unknown and obs.get("cli_reported_after_api") is False:
            return "unknown IDs / samples were dropped by the command line without any report when the Python entry point had run earlier in the same process"
    return None


def describe(case, obs):
    tags = [case["kind"], "short-opts" if case["short"] else "long-opts"]
    # how many cases exercise a run that succeeds (a comparison of two failures says little)
    failed = isinstance(obs, dict) and isinstance(obs.get("api_error"), dict) and "error" in obs["api_error"]
    tags.append(f"{case['kind']}:entry-point-{'fails' if failed else 'succeeds'}")
    if case["ids"]:
        tags.append("ids")
        if any(x.startswith("nosuchID") for x in case["ids"]):
            tags.append("unknown-id")
        if len(set(case["ids"])) < len(case["ids"]):
            tags.append("duplicate-id")
    if case["samples"]:
        tags.append("samples")
    if case.get("failing") or case.get("absent_sample"):
        tags.append("failing-run")
    return tags


CHECK = Check(
    id="C19",
    title="CLI and Python entry points agree; list-in-file options equal repeated options",
    theorems=["C19.samples_file_eq_repeated", "C19.ids_file_eq_repeated", "C19.both_is_usage_error", "C19.empty_is_none", "C19.unknown_ids_dropped", "C19.file_holds_names", "C19.file_holds_names_other_line_ends", "C19.final_newline_is_not_information", "C19.splitlines_cut_names_before_fix", "C19.samples_file_eq_repeated_end_to_end", "C19.every_spelling_parses_to_its_meaning", "C19.spellings_are_interchangeable", "C19.breakpoints_prefix_of_out", "C19.breakpoints_prefix_without_ending"],
    sections=[
        Section(
            name="cli_vs_api",
            theorems=["C19.samples_file_eq_repeated", "C19.ids_file_eq_repeated", "C19.both_is_usage_error", "C19.empty_is_none", "C19.unknown_ids_dropped", "C19.breakpoints_prefix_of_out", "C19.breakpoints_prefix_without_ending"],
            gen=gen,
            impl=impl,
            oracle=oracle,
            describe=describe,
            setup=setup,
            teardown=teardown,
            nontrivial=lambda c, o: C.jdump(c),
            rule="every subcommand (transform, simphenotype, ld, index, clump, simgenotype, karyogram) through click's CliRunner and through its Python entry point on the same inputs: short and long spellings, --id vs --ids-file and --sample vs --samples-file (ID lists in non-alphabetical order, with unknown entries and duplicates), VCF / PGEN, ld with and without --from-gts and haplotype / variant targets, index with --sort / --no-sort incl. an input tabix refuses, karyogram with an absent sample, both forms of sample selection at once; outputs compared as parsed content (VCF) or text (.pheno, .ld, .hap, .clump, .bp), exit codes recorded; for transform, simphenotype and ld the entry point is wrapped while the command runs and every argument it receives (incl. random further options: --discard-missing, --maf, --chunk-size, --environment, --prevalence, --no-normalize) is compared with the parameters the options mean",
        ),
        Section(
            name="command_line_parse",
            theorems=["C19.every_spelling_parses_to_its_meaning", "C19.spellings_are_interchangeable", "C19.both_is_usage_error", "C19.empty_is_none", "C19.samples_file_eq_repeated_end_to_end"],
            gen=c19b.gen_parse,
            impl=c19b.impl_parse,
            model_req=c19b.model_req_parse,
            model_obs=c19b.model_obs_parse,
            equal=c19b.equal_parse,
            oracle=c19b.oracle_parse,
            describe=c19b.describe_parse,
            variants=c19b.variants_parse,
            setup=c19b.setup,
            teardown=c19b.teardown,
            nontrivial=lambda c, o: C.jdump([c["cmd"], c["items"], c["bad"]]),
            rule="for each of the seven subcommands the option table is read off click's declarations in __main__.py on every run and handed to the Lean parser together with an argument vector: a random subset of the options in random order, every option in a randomly chosen spelling (short or long, --x or --no-x), repeatable options up to four times, single-valued ones sometimes twice (the last wins), values that look like options, positionals in between; plus malformed vectors (unknown or abbreviated option, a final option without its value, one positional too many / too few). Compared: the parameters click's parser produces (Command.make_context) and, for transform / simphenotype / ld, the samples and IDs the entry point receives (it is replaced by a recorder while the command runs; list files with CRLF, no final newline, duplicates, empty names and other separators inside names) with the model's; the model also evaluates `tableOK` (no spelling names two options) on the table",
        ),
        Section(
            name="list_files",
            theorems=["C19.file_holds_names", "C19.file_holds_names_other_line_ends", "C19.final_newline_is_not_information", "C19.splitlines_cut_names_before_fix", "C19.ids_file_eq_repeated"],
            gen=c19b.gen_lines,
            impl=c19b.impl_lines,
            model_req=c19b.model_req_lines,
            model_obs=c19b.model_obs_lines,
            oracle=c19b.oracle_lines,
            describe=c19b.describe_lines,
            setup=c19b.setup,
            teardown=c19b.teardown,
            nontrivial=lambda c, o: C.jdump(c),
            rule="random texts over an alphabet of name pieces, blanks, \\n, \\r\\n, \\r and every other separator of str.splitlines (VT, FF, FS, GS, RS, U+0085, U+2028, U+2029) written byte for byte to a file that is given as --ids-file and -S to ld / transform / simphenotype; the names the entry point receives (ld: in order of first mention) compared with the model's `readLines`; the model of str.splitlines used for the pre-fix witness is compared with Python's on the same texts",
        ),
        Section(
            name="as_typed_in_a_shell",
            theorems=["C19.samples_file_eq_repeated", "C19.empty_is_none"],
            gen=c19b.gen_shell,
            impl=c19b.impl_shell,
            oracle=c19b.oracle_shell,
            describe=lambda c, o: [c["cmd"], "stdout" if c["stdout"] else "relative -o", "cwd=" + c["cwd"], "pgen" if c["pgen"] else "vcf"],
            setup=c19b.setup_shell,
            teardown=c19b.teardown_shell,
            nontrivial=lambda c, o: C.jdump(c),
            rule="what the in-process sections keep constant: `python -m haptools transform / simphenotype / ld` as a process of its own, started in a working directory whose name holds a blank or in a subdirectory of it, every input path relative (../g.vcf.gz), no --output (the documented default: standard output) or a relative one with a blank; the text written (meta lines aside) must equal what the Python entry point writes for the same parameters, the exit status must be 0 exactly when the entry point succeeds",
        ),
        Section(
            name="simgenotype_as_typed_in_a_shell",
            theorems=["C19.empty_is_none"],
            gen=c19b.gen_simgt_shell,
            impl=lambda case: c19b.impl_simgt_shell(case, c19b._shell_dir),
            oracle=c19b.oracle_simgt_shell,
            describe=lambda c, o: ["out=" + c["out"], "pop_field" if c["pop"] else "no-pop_field", "sample_field" if c["sample"] else "no-sample_field"],
            setup=c19b.setup_shell,
            teardown=c19b.teardown_shell,
            nontrivial=lambda c, o: C.jdump(c),
            rule="the same for simgenotype: --out a bare name, an upper-case spelling, a compressed or BCF name with a blank, a nested and a dotted name in a working directory with a blank, inputs by relative path, with and without --pop_field / --sample_field; breakpoints, genotypes and annotations equal those of the Python entry points with the same seed",
        ),
    ],
    trusted=["click's type conversion of option values, its handling of --opt=value and clustered short options (not modelled) and its exit-code policy (usage errors exit with 2, exceptions with 1)"],
    assumptions=[],
    partial="click's parser is modelled on the documented argument forms only (--opt value, -o value, flags, positionals); the output equivalences are checked on generated option combinations",
    anchors=[("haptools/__main__.py", ["transform", "simphenotype", "ld", "index", "clump", "simgenotype", "karyogram"]), ("haptools/index.py", ["index_haps"])],
)
