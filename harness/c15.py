"""C15 — phenotype/covariate files round-trip bit-exactly; table operations are exact."""
from __future__ import annotations

import gzip
import math
import struct

import numpy as np

from . import common as C
from . import simdata as SD
from .run import Check, Section

_dir = None
_tok = {}  # case -> [(bits, written token)…] row by row, left behind by the implementation run for the model request


def setup():
    global _dir
    _dir = C.scratch_dir("c15")
    return _dir


def teardown(_):
    _tok.clear()
    C.rm_tree(_dir)


def bits(x):
    return struct.unpack("<Q", struct.pack("<d", float(x)))[0]


def from_bits(b):
    return struct.unpack("<d", struct.pack("<Q", b))[0]


SPECIAL = [0.0, -0.0, 1.0, -1.0, 5e-324, 2.2250738585072014e-308, 2.225073858507201e-308, 1.7976931348623157e308, 1e300, 1e-300, -1e300, 0.1, 0.30000000000000004, 1 / 3, 2 / 3, 123456789012345680.0, 9007199254740993.0, 4503599627370497.5, 1e22, 1e23, 5e-5, 0.0001, 100000.0, 1e16, -9.0, 2.5, 1024.0, 0.5, 1e-7]


def rand_double(rng):
    r = rng.random()
    if r < 0.3:
        return rng.choice(SPECIAL)
    if r < 0.6:
        while True:
            x = from_bits(rng.getrandbits(64))
            if math.isfinite(x):
                return x
    if r < 0.7:  # neighbours of powers of two and ten
        base = rng.choice([2.0 ** rng.randint(-60, 60), 10.0 ** rng.randint(-20, 20)])
        return math.nextafter(base, rng.choice([0.0, math.inf]))
    if r < 0.8:
        return float(rng.randint(-10**6, 10**6))
    return rng.gauss(0, 1) * 10 ** rng.randint(-12, 12)


# ------------------------------------------------------------------ write -> read, bitwise
def gen_rt(rng, tier):
    n = 250 if tier == "quick" else 10000
    pool = ["height", "bmi", "a", "a-1", "PC1", "x y", "h"]
    for t in range(n):
        ns, m = rng.randint(1, 5), rng.randint(1, 4)
        names = [rng.choice(pool) for _ in range(m)]
        if rng.random() < 0.3:
            names = [names[0]] * m
        if t % 10 == 3:
            # a fixed share: a repeated name whose suffixed forms (a-1, a-2, a-3 …) are names of other columns, several in a row
            m = rng.randint(4, 7)
            names = ["a", "a"] + [rng.choice(["a", "a-1", "a-2", "a-3", "a-1-1"]) for _ in range(m - 2)]
            rng.shuffle(names)
        table = [[bits(rand_double(rng)) for _ in range(m)] for _ in range(ns)]
        if rng.random() < 0.12:
            # a table of whole numbers only (case/control labels, counts) – with a negative zero among them
            table = [[bits(float(rng.choice([0, 1, 1, 2, -3, 40, 2**53, -(2**31)]))) for _ in range(m)] for _ in range(ns)]
            if rng.random() < 0.7:
                table[rng.randrange(ns)][rng.randrange(m)] = bits(-0.0)
        if t == n // 2 or (tier != "quick" and t % 2000 == 7):
            # a very wide table (more columns than numpy prints without summarising)
            m = rng.choice([1001, 1200, 1500])
            names = [f"c{j}" for j in range(m)]
            table = [[bits(rand_double(rng)) for _ in range(m)] for _ in range(ns)]
        samples = [f"s{i}" for i in range(ns)]
        if t % 10 == 5:
            # a fixed share: names and sample IDs that begin or end with a blank, next to the same text without it
            names = [rng.choice([" bmi", "bmi", "bmi ", " a", "a"]) for _ in range(len(names))]
            samples = [(" " if i % 2 else "") + f"s{i // 2}" + (" " if i % 3 == 2 else "") for i in range(ns)]
        yield {"samples": samples, "names": names, "bits": table, "gz": rng.random() < 0.2, "cov": rng.random() < 0.3, "subset": rng.choice([None, None, "some"]), "seed": rng.randrange(2**31)}


def impl_rt(case):
    import random

    from haptools import data as D

    K = D.Covariates if case["cov"] else D.Phenotypes
    f = _dir / ("t.pheno.gz" if case["gz"] else "t.pheno")
    if case["seed"] % 8 == 3:
        _simulated_verbosely()
    p = K(f, log=SD.silent_log())
    p.samples = tuple(case["samples"])
    p.names = tuple(case["names"])
    p.data = np.array([[from_bits(b) for b in r] for r in case["bits"]], dtype=np.float64)
    p.write()
    text = (gzip.open(f, "rt") if case["gz"] else open(f)).read()
    # the tokens the real writer produced, cell by cell, beside the bits they stand for (decided in Lean: FloatText.checkTok)
    _tok[C.jdump(case)] = [[[str(b), t] for b, t in zip(brow, line.split("\t")[1:])] + [["0", t] for t in line.split("\t")[1 + len(brow) :]] for brow, line in zip(case["bits"], text.splitlines()[1:])]
    want = None
    if case["subset"]:
        rnd = random.Random(case["seed"])
        want = set(rnd.sample(case["samples"], rnd.randint(1, len(case["samples"]))))
    r = K(f, log=SD.silent_log())
    r.read(samples=want)
    return {"samples": list(r.samples), "names": list(r.names), "bits": [[bits(x) for x in row] for row in np.asarray(r.data)], "header": text.splitlines()[0].split("\t"), "want": sorted(want) if want else None,
            # what the statement demands of the file itself: every cell is a token that any correctly rounding reader turns into the bits it was written from
            "tokens": [["reads" if math.isfinite(from_bits(b)) else "special" for b in row] for row in case["bits"]]}


def _simulated_verbosely():
    """what `haptools simphenotype --verbosity DEBUG` does before it writes its phenotypes: one trait simulated by a simulator whose
    logger is at DEBUG level (the records go nowhere).  Files written later in the same process round-trip like any other."""
    import logging

    from haptools.sim_phenotype import Effect, PhenoSimulator

    log = logging.getLogger("c15-debug-run")
    log.setLevel(logging.DEBUG)
    log.propagate = False
    if not log.handlers:
        log.addHandler(logging.NullHandler())
    g = D_genotypes(log)
    PhenoSimulator(g, seed=3, log=log).run([Effect(id="v0", beta=0.25), Effect(id="v1", beta=-0.5)], heritability=0.5)


def D_genotypes(log):
    from haptools import data as D

    g = D.Genotypes(fname=None, log=log)
    g.samples = ("a", "b", "c")
    g.variants = np.array([("v0", "1", 10), ("v1", "1", 20)], dtype=g.variants.dtype)
    g.data = np.array([[[0, 1], [1, 1]], [[1, 1], [0, 0]], [[0, 0], [0, 1]]], dtype=np.uint8)
    return g


def model_req_rt(case):
    rows = _tok.get(C.jdump(case), [])  # not popped: a generator may yield the same case twice
    return {"op": "batch", "reqs": [{"op": "uniqNames", "names": case["names"]}, {"op": "floatTok", "pairs": [p for r in rows for p in r]}]}


def model_obs_rt(case, resp):
    import random

    want = None
    if case["subset"]:
        rnd = random.Random(case["seed"])
        want = set(rnd.sample(case["samples"], rnd.randint(1, len(case["samples"]))))
    keep = [i for i, s in enumerate(case["samples"]) if want is None or s in want]
    names = resp["resps"][0]["names"]
    flat = list(resp["resps"][1]["verdicts"])
    # the verdicts come back flat, in file order; the rows are as long as the rows of the case when the file has its shape
    toks, k = [], 0
    for row in case["bits"]:
        toks.append(flat[k : k + len(row)])
        k += len(row)
    if k != len(flat):
        toks.append(flat[k:])
    return {"samples": [case["samples"][i] for i in keep], "names": names, "bits": [case["bits"][i] for i in keep], "header": ["#IID"] + names, "want": sorted(want) if want else None, "tokens": toks}


def collision(names):
    """F27 territory (formerly KF2): some input name equals another input name followed by -k with k below that name's multiplicity"""
    from collections import Counter

    cnt = Counter(names)
    for n in names:
        for base, c in cnt.items():
            for k in range(1, c):
                if n == f"{base}-{k}":
                    return True
    return False


def oracle_rt(case, obs):
    if "error" in obs:
        return f"write/read raised {obs}"
    keep = [i for i, s in enumerate(case["samples"]) if obs["want"] is None or s in obs["want"]]
    if obs["samples"] != [case["samples"][i] for i in keep]:
        return f"samples read {obs['samples']}"
    if obs["bits"] != [case["bits"][i] for i in keep]:
        for i, (a, b) in enumerate(zip(obs["bits"], [case["bits"][i] for i in keep])):
            for j, (x, y) in enumerate(zip(a, b)):
                if x != y:
                    return f"value {from_bits(y)!r} (bits {y:#x}) of sample {obs['samples'][i]} column {j} came back as {from_bits(x)!r} (bits {x:#x})"
        return "values differ in shape"
    # names: the originals, duplicates made unique by numeric suffixes, i.e. pairwise distinct and each of the form name / name-k
    if len(set(obs["names"])) != len(obs["names"]):
        return f"column names {case['names']} were written as {obs['names']}: not unique"
    for orig, got in zip(case["names"], obs["names"]):
        if not (got == orig or (got.startswith(orig + "-") and got[len(orig) + 1 :].isdigit())):
            return f"column {orig!r} was renamed {got!r}"
    return None




# ------------------------------------------------------------------ reading hand-written files
def gen_parse(rng, tier):
    n = 200 if tier == "quick" else 6000
    toks = ["1.5", "-9", "0", "1e-300", "NA", "na", "abc", "", "nan", " 2.0", "3.", ".5", "1e5", "-inf", "1,5", "0x10", "+4", "7e", "--1"]
    # tokens whose correctly rounded reading is delicate: ties between two doubles (read as the even one), values a hair off a tie,
    # the edges of the subnormal range, 17 and more significant digits, exponent forms (each judged by FloatText.checkTok in Lean)
    hard = ["1e23", "9007199254740993", "9007199254740995", "2.4703282292062327e-324", "2.4703282292062328e-324", "4.9e-324", "1.7976931348623157e308", "0.1000000000000000055511151231257827", "0.30000000000000004", "123456789012345678", "5e-324", "2.2250738585072011e-308", "1E5", "-0.0", "1.e3", "0.000001e6"]
    for t in range(n):
        m = rng.randint(1, 3)
        lines = []
        for _ in range(rng.randint(0, 2)):
            lines.append([rng.choice(["# comment", "#", "#a\tb", "##x"])])
        lines.append(["#IID"] + [f"p{j}" for j in range(m)])
        for i in range(rng.randint(1, 5)):
            good = rng.random() < 0.6
            row = [f"s{i}"] + [rng.choice(toks[:3] + toks[9:13] + (hard if t % 3 == 0 else [])) if good else rng.choice(toks) for _ in range(m)]
            if t % 4 == 1 and rng.random() < 0.4:
                # a cell beyond the last column of the header that is no number (a remark, NA, the empty cell a trailing tab leaves):
                # a row with a non-numeric entry like any other
                row.append(rng.choice(["NA", "", "abc", "see notes"]))
            lines.append(row)
        yield {"lines": lines}


def impl_parse(case):
    from haptools import data as D

    f = _dir / "h.pheno"
    open(f, "w").write(C.text_ending(case, "h.pheno", "\n".join("\t".join(l) for l in case["lines"]) + "\n"))
    with C.capture_logs() as cap:
        p = D.Phenotypes(f, log=cap.logger)
        try:
            p.read()
            rows = [[str(s), [bits(x) for x in row]] for s, row in zip(p.samples, np.asarray(p.data))]
            names = list(p.names)
            raised = False
        except ValueError:
            # a file without a single parsable row: the statement does not say whether that is an empty table or a refusal
            # (judged in the oracle: a ValueError is only acceptable when no row of the file is parsable)
            rows, names, raised = [], list(p.names) if p.names is not None else None, True
    # the values the real reader returned, beside the tokens of the line they were read from (sample IDs are unique per file):
    # whether each is THE correctly rounded reading of its token is decided in Lean (FloatText.checkTok), not by calling float() again
    by_sample = {l[0]: l for l in case["lines"] if l and not l[0].startswith("#")}
    _tok["parse:" + C.jdump(case)] = {s: [[str(b), t] for b, t in zip(bs, by_sample.get(s, [s])[1:])] for s, bs in rows}
    return {"names": names, "rows": rows, "raised": raised, "errors": sum(1 for l, _ in cap.records if l == "ERROR")}


def model_req_parse(case):
    left = _tok.get("parse:" + C.jdump(case), {})
    # every token of every data line, for the reader of the model (FloatText.readTok: the correctly rounded value, certified)
    toks = [t for l in case["lines"] if l and not l[0].startswith("#") for t in l[1:]]
    return {"op": "batch", "reqs": [{"op": "phenoParse", "lines": case["lines"]}, {"op": "floatTok", "pairs": [p for s in left for p in left[s]]}, {"op": "floatRead", "tokens": toks}]}


def _value_bits(v):
    """bits of what the model's reader returned for a token (decimal string of the bits, inf, -inf, nan)"""
    if v == "nan":
        return bits(float("nan"))
    if v in ("inf", "-inf"):
        return bits(float(v))
    return int(v) if v.isdigit() else f"the model's reader has no value for this token ({v})"


def model_obs_parse(case, resp):
    t = resp["resps"][0]["table"]
    left = _tok.get("parse:" + C.jdump(case), {})
    flat, k, ok = list(resp["resps"][1]["verdicts"]), 0, {}
    for s in left:
        # cross-check: Lean finds the value the real reader returned inside the rounding interval of its token (and then inside no other)
        ok[s] = [v in ("reads", "special") for (b, tok), v in zip(left[s], flat[k : k + len(left[s])])]
        k += len(left[s])
    # the values of the model's own reader, token by token in file order
    vals = iter(resp["resps"][2]["values"])
    by_line = {}
    for l in case["lines"]:
        if l and not l[0].startswith("#"):
            by_line.setdefault(l[0], [next(vals) for _ in l[1:]])
    nan = bits(float("nan"))
    rows = []
    for s, toks in t["rows"]:
        row = []
        for j, x in enumerate(toks):
            b = _value_bits(by_line.get(s, [])[j]) if j < len(by_line.get(s, [])) else "no such cell"
            if isinstance(b, int) and s in ok and j < len(ok[s]) and not ok[s][j]:
                b = f"the value returned for {x!r} lies outside its rounding interval"
            row.append(nan if isinstance(b, int) and math.isnan(from_bits(b)) else b)  # nan has many bit patterns: compared as the canonical one
        rows.append([s, row])
    return {"names": t["names"], "rows": rows}


def equal_parse(a, b):
    if "error" in a:
        return False
    if a.get("raised"):
        return b["rows"] == []
    return a["names"] == b["names"] and a["rows"] == b["rows"]


def oracle_parse(case, obs):
    if "error" in obs:
        return f"read raised {obs}"
    body = case["lines"][[i for i, l in enumerate(case["lines"]) if l[0] == "#IID"][0] + 1 :]

    def num(t):
        try:
            return float(t)
        except ValueError:
            return None

    want = []
    bad = 0
    for l in body:
        vals = [num(t) for t in l[1:]]
        if any(v is None for v in vals):
            bad += 1
            continue
        want.append([l[0], [bits(v) for v in vals]])
    if obs.get("raised") and want:
        return f"read() raised ValueError although the file holds the parsable rows {want}"
    if obs["rows"] != want:
        return f"rows read {obs['rows']}; the parsable rows of the file are {want} (rows with a non-numeric cell must be skipped, never shifted)"
    if bad and not obs["errors"]:
        return f"{bad} row(s) with non-numeric entries were skipped without an error message"
    return None


# ------------------------------------------------------------------ table operations
def gen_ops(rng, tier):
    for t in range(200 if tier == "quick" else 6000):
        ns, m = rng.choice([1, 2, 3, 4, 5, 6, 6, 7]), rng.randint(1, 3)
        if rng.random() < 0.05:
            ns, m = rng.randint(17, 40), rng.randint(1, 12)  # medium sizes
        data = [[rng.choice([-9.0, 0.0, 1.0, 2.5, -3.0, 7.0, 1e-9 * rng.randint(1, 9), 1e-12 * rng.randint(1, 9), 170.0 + rng.randint(0, 9)]) for _ in range(m)] for _ in range(ns)]
        if rng.random() < 0.3:
            # neighbours of the missing code: only -9 itself is the code
            for r in data:
                if rng.random() < 0.5:
                    r[rng.randrange(m)] = rng.choice([-9.5, -9.000001, -9.999, -8.999999, -9.000000000000002, -8.999999999999998, -90.0, 9.0, -9e-300])
        if rng.random() < 0.3:
            j = rng.randrange(m)
            for r in data:
                r[j] = data[0][j]  # constant column
        if rng.random() < 0.35:
            # a column whose offset dwarfs its spread (coordinates, dates, temperatures): ill-conditioned for any
            # variance formula that subtracts large squares
            j = rng.randrange(m)
            off, step = rng.choice([(1e8, 1.0), (1e8, 0.001), (2450000.5, 0.01), (37.0, 1e-7), (-1e6, 0.5), (1e12, 3.0), (170.0, 1.0)])
            for r in data:
                r[j] = off + step * rng.randint(0, 19)
        if rng.random() < 0.15:
            # a column of extreme magnitude (the statement quantifies over 1e-300 … 1e+300 and subnormals): its spread is far
            # outside the range in which squares are representable, yet it is not constant
            j = rng.randrange(m)
            unit = rng.choice([1e-300, 1e-200, 1e-160, 5e-324, 1e160, 1e200, 1e300])
            for r in data:
                r[j] = unit * rng.randint(-3, 9)
        if t % 10 == 4 and ns >= 2:
            # a fixed share: a column of neighbouring doubles (its spread is a few units in the last place of its offset), where
            # the rounding error of the computed mean is as large as the deviations themselves (defect F33)
            j = rng.randrange(m)
            off = rng.choice([-9.0, 1.0, 170.0, 1e8, -0.1, 3e-300])
            for r in data:
                r[j] = off
            for i in rng.sample(range(ns), rng.randint(1, ns - 1)):
                for _ in range(rng.randint(1, 3)):
                    data[i][j] = math.nextafter(data[i][j], rng.choice([math.inf, -math.inf]))
        names = [f"p{j}" for j in range(m)]
        cs = rng.choice([None, rng.sample(names, rng.randint(1, m))])
        rs_special = None
        if ns >= 4 and rng.random() < 0.25:
            # a contiguous range of samples, lowest first and highest last, the ones in between permuted
            lo = rng.randint(0, ns - 4)
            hi = rng.randint(lo + 3, ns - 1)
            mid = list(range(lo + 1, hi))
            while mid == sorted(mid):
                rng.shuffle(mid)
            rs_special = [f"s{i}" for i in [lo] + mid + [hi]]
        if m > 1 and rng.random() < 0.25:
            # a repeated column name (what `simphenotype --replications` produces): subsetting by samples only must still work
            names = [rng.choice(["H1", "bmi"]) for _ in range(m)]
            names[1] = names[0]
            cs = None
        yield {"samples": [f"s{i}" for i in range(ns)], "names": names, "data": data, "rs": rs_special or rng.choice([None, rng.sample([f"s{i}" for i in range(ns)] + ["zz"], rng.randint(1, ns + 1))]), "cs": cs, "cov": rng.random() < 0.3}


def impl_ops(case):
    from haptools import data as D

    def mk():
        p = (D.Covariates if case.get("cov") else D.Phenotypes)("x.pheno", log=SD.silent_log())
        p.samples, p.names = tuple(case["samples"]), tuple(case["names"])
        p.data = np.array(case["data"], dtype=np.float64)
        return p

    out = {}
    p = mk()
    p.standardize()
    out["std"] = np.asarray(p.data).tolist()
    # the standardised table refilled in place with the raw values and standardised again: the same result once more
    p.data[...] = np.array(case["data"], dtype=np.float64)
    p.standardize()
    out["std_after_refill"] = np.asarray(p.data).tolist()
    p = mk()
    p.append("extra", np.arange(len(case["samples"]), dtype=np.float64))
    out["append"] = {"names": list(p.names), "samples": list(p.samples), "data": np.asarray(p.data).tolist()}
    if len(set(case["names"])) == len(case["names"]):
        # a short history on one object: by-name lookup first (builds the name index), two appends, by-name subsets
        p = mk()
        p.subset(names=tuple(case["names"][:1]))
        n_ = len(case["samples"])
        p.append("e1", np.arange(n_, dtype=np.float64) + 100)
        p.append("e2", np.arange(n_, dtype=np.float64) + 200)
        r1 = C.guarded(lambda: (lambda q: {"names": list(q.names), "data": np.asarray(q.data).tolist()})(p.subset(names=("e1",))))
        r2 = C.guarded(lambda: (lambda q: {"names": list(q.names), "data": np.asarray(q.data).tolist()})(p.subset(names=("e2", case["names"][0]))))
        out["append_history"] = [r1, r2]
        # a column appended, the table reordered in place (its matrix is then another array), a second column appended: every
        # earlier column keeps the values it has now
        p = mk()
        p.append("e1", np.arange(n_, dtype=np.float64) + 100)
        p.subset(samples=tuple(case["samples"][::-1]), inplace=True)
        p.append("e2", np.arange(n_, dtype=np.float64) + 200)
        out["append_reorder_append"] = C.guarded(lambda: {"names": list(p.names), "samples": list(p.samples), "data": np.asarray(p.data).tolist()})
        if n_ >= 2:
            # two tables cut from one (train / test) after its lookups were built; each gets a column of its own: a name
            # exists only in the table it was appended to
            p = mk()
            p.index()
            h = n_ // 2
            tr, te = p.subset(samples=tuple(case["samples"][:h])), p.subset(samples=tuple(case["samples"][h:]))
            tr.append("prs", np.arange(h, dtype=np.float64) + 10)
            te.append("batch", np.arange(n_ - h, dtype=np.float64) + 20)
            snap = lambda q: {"names": list(q.names), "data": np.asarray(q.data).tolist()}
            out["siblings"] = [C.guarded(lambda: snap(o.subset(names=q))) for o, q in ((tr, ("prs",)), (te, ("batch",)), (te, ("prs",)), (p, ("prs",)), (tr, (case["names"][0], "prs")), (p, ("batch", case["names"][0])))]
    if len(set(case["names"])) == len(case["names"]):
        # subsets of an object that was reordered / cut down in place before (its lookups were built for the old layout)
        S_, N_ = case["samples"], case["names"]
        full = lambda q: {"names": list(q.names), "samples": list(q.samples), "data": np.asarray(q.data).tolist()}
        p = mk()
        p.subset(samples=tuple(S_[::-1]), names=tuple(N_[::-1]), inplace=True)
        hist = [C.guarded(lambda: full(p)), C.guarded(lambda: full(p.subset(samples=tuple(S_[: max(1, len(S_) // 2)])))), C.guarded(lambda: full(p.subset(names=tuple(N_[:1]))))]
        p.subset(samples=tuple(S_[1:] or S_), inplace=True)
        hist.append(C.guarded(lambda: full(p.subset(samples=tuple(S_[-1:]), names=tuple(N_[-1:])))))
        hist.append(C.guarded(lambda: full(p.subset(samples=tuple(S_[1:] or S_)))))
        out["inplace_history"] = hist
    p = mk()
    r = p.subset(samples=None if case["rs"] is None else tuple(case["rs"]), names=None if case["cs"] is None else tuple(case["cs"]))
    out["subset"] = {"names": list(r.names), "samples": list(r.samples), "data": np.asarray(r.data).tolist()}
    p = mk()
    try:
        p.check_missing()
        out["missing_raises"] = False
    except ValueError:
        out["missing_raises"] = True
    p = mk()
    p.check_missing(discard_also=True)
    out["missing_discard"] = {"samples": list(p.samples), "data": np.asarray(p.data).tolist()}
    return out


def oracle_ops(case, obs):
    if "error" in obs:
        return f"raised {obs}"
    D = case["data"]
    ns, m = len(D), len(D[0])
    for j in range(m):
        col = [D[i][j] for i in range(ns)]
        std = [obs["std"][i][j] for i in range(ns)]
        if len(set(col)) == 1:
            if any(x != 0 for x in std):
                return f"constant column {col} standardised to {std}, expected all zeros"
        else:
            from fractions import Fraction as Fr

            mean = sum(std) / ns
            var = sum((x - mean) ** 2 for x in std) / ns
            # the mean of the input is itself only known to a few ulp of the largest entry: allow that, relative to the spread
            em = sum(Fr(x) for x in col) / ns
            big = max(abs(Fr(x)) for x in col)
            # spread relative to the largest entry, computed on exact fractions (the floats themselves may be far outside the range
            # in which their squares are representable)
            rel_sd = float(sum((Fr(x) - em) ** 2 for x in col) / ns / big**2) ** 0.5
            tol_mean = 1e-9 + 8 * ns * 2.3e-16 / rel_sd
            if abs(mean) > tol_mean or abs(var - 1) > 1e-9:
                return f"column {col} standardised to {std}: mean {mean}, variance {var} (expected 0 and 1)"
    if "std_after_refill" in obs and C.jdump(obs["std_after_refill"]) != C.jdump(obs["std"]):
        return f"standardize(), the table refilled in place with its raw values, standardize() again: {obs['std_after_refill']}; the first time it gave {obs['std']}"
    if "append_history" in obs:
        r1, r2 = obs["append_history"]
        w1 = {"names": ["e1"], "data": [[float(i + 100)] for i in range(ns)]}
        w2 = {"names": ["e2", case["names"][0]], "data": [[float(i + 200), D[i][0]] for i in range(ns)]}
        if r1 != w1 or r2 != w2:
            return f"after a by-name lookup and two appends, subset(names=('e1',)) gave {r1} and subset(names=('e2', {case['names'][0]!r})) gave {r2}; expected {w1} and {w2}"
    if "append_reorder_append" in obs:
        w = {"names": list(case["names"]) + ["e1", "e2"], "samples": list(case["samples"][::-1]), "data": [list(D[i]) + [float(i + 100), float(k + 200)] for k, i in enumerate(range(ns - 1, -1, -1))]}
        if obs["append_reorder_append"] != w:
            return f"append('e1'), subset(samples reversed, in place), append('e2') left {obs['append_reorder_append']}; expected {w}"
    if "siblings" in obs:
        h = ns // 2
        n0 = case["names"][0]
        want = [
            {"names": ["prs"], "data": [[float(i + 10)] for i in range(h)]},
            {"names": ["batch"], "data": [[float(i + 20)] for i in range(ns - h)]},
            {"names": [], "data": [[] for _ in range(ns - h)]},  # 'prs' was appended to the other table
            {"names": [], "data": [[] for _ in range(ns)]},  # … and never to the table both were cut from
            {"names": [n0, "prs"], "data": [[D[i][0], float(i + 10)] for i in range(h)]},
            {"names": [n0], "data": [[D[i][0]] for i in range(ns)]},
        ]
        for k, (g, w) in enumerate(zip(obs["siblings"], want)):
            if g != w:
                return f"two tables cut from one (first {h} samples / the rest), 'prs' appended to the first and 'batch' to the second: by-name selection no. {k} gave {g}, expected {w}"
    if "inplace_history" in obs:
        S_, N_ = case["samples"], case["names"]
        cell = lambda sm, nm: D[S_.index(sm)][N_.index(nm)]
        tbl = lambda ss, nn: {"names": list(nn), "samples": list(ss), "data": [[cell(a_, b_) for b_ in nn] for a_ in ss]}
        rest = S_[1:] or S_
        want = [tbl(S_[::-1], N_[::-1]), tbl(S_[: max(1, len(S_) // 2)], N_[::-1]), tbl(S_[::-1], N_[:1]), tbl(S_[-1:], N_[-1:]), tbl(rest, N_[::-1])]
        what = ["the table itself after subset(all samples reversed, all names reversed, inplace=True)", "then subset(samples=first half)", "then subset(names=first name)", "after a second in-place subset dropping the first sample: subset(last sample, last name)", "… and subset(samples=all but the first, in file order)"]
        for g, w, t in zip(obs["inplace_history"], want, what):
            if g != w:
                return f"{t} gave {g}, expected {w}"
    a = obs["append"]
    if a["names"] != case["names"] + ["extra"] or a["samples"] != case["samples"] or a["data"] != [D[i] + [float(i)] for i in range(ns)]:
        return f"append produced {a}"
    rows = [case["samples"].index(s) for s in (case["rs"] or case["samples"]) if s in case["samples"]]
    cols = list(range(m)) if case["cs"] is None else [case["names"].index(n) for n in case["cs"]]
    s = obs["subset"]
    if s["samples"] != [case["samples"][i] for i in rows] or s["names"] != [case["names"][j] for j in cols] or s["data"] != [[D[i][j] for j in cols] for i in rows]:
        return f"subset(samples={case['rs']}, names={case['cs']}) returned {s}"
    has = [any(x == -9 for x in r) for r in D]
    if obs["missing_raises"] != any(has):
        return f"check_missing raised={obs['missing_raises']} although rows holding -9: {has}"
    md = obs["missing_discard"]
    if md["samples"] != [case["samples"][i] for i in range(ns) if not has[i]] or md["data"] != [D[i] for i in range(ns) if not has[i]]:
        return f"check_missing(discard_also=True) kept {md['samples']}; the samples without -9 are {[case['samples'][i] for i in range(ns) if not has[i]]}"
    return None


CHECK = Check(
    id="C15",
    title="Phenotype/covariate files round-trip bit-exactly; table operations are exact",
    theorems=["C15.parse_render", "C15.bad_rows_skipped_not_shifted", "C15.parsed_row_is_its_line", "C15.leading_comments_ignored", "C15.names_made_unique", "C15.repeated_name_made_unique", "C15.uniqNamesOld_collision_witness", "C15.decimal_reads_as_at_most_one_double", "C15.float_codec_contract", "C15.exact_value_reads_back", "C15.checked_token_reads_back_everywhere", "C15.bits_decode_canonical", "C15.value_handed_out_is_the_correct_reading", "C15R.every_decimal_has_exactly_one_reading", "C15R.certified_reader_is_total", "C15R.float_codec_contract_total", "C09R.standardize_mean_zero", "C09R.standardize_var_one", "C09R.code_algorithm_is_standardize", "C09R.second_centring_is_identity"],
    imports=("HapModel", "HapReal"),
    build_targets=("HapModel", "HapReal"),
    sections=[
        Section(
            name="write_read_bitwise",
            theorems=["C15.parse_render", "C15.names_made_unique", "C15.repeated_name_made_unique", "C15.uniqNamesOld_collision_witness", "C15.decimal_reads_as_at_most_one_double", "C15.float_codec_contract", "C15.exact_value_reads_back", "C15.checked_token_reads_back_everywhere", "C15.bits_decode_canonical"],
            gen=gen_rt,
            impl=impl_rt,
            model_req=model_req_rt,
            model_obs=model_obs_rt,
            oracle=oracle_rt,
            setup=setup,
            teardown=teardown,
            nontrivial=lambda c, o: C.jdump([c["bits"], c["names"]]),
            describe=lambda c, o: ["after-a-DEBUG-level-simulation-in-the-process" if c["seed"] % 8 == 3 else "plain-process", "Covariates" if c["cov"] else "Phenotypes", "gzip" if c["gz"] else "plain", "dup-names" if len(set(c["names"])) < len(c["names"]) else "uniq-names", "sample-subset" if c["subset"] else "all"],
            rule="seeded float64 tables (1-5 samples x 1-4 columns) whose cells are drawn from bit patterns: uniform over the finite 2^64 patterns, a list of special values (subnormals, +-0, max, 1e+-300, 17-digit values, halfway cases), neighbours of powers of two and ten, integers, scaled gaussians; name multisets incl. duplicates and already-suffixed forms; plain / gzip, Phenotypes / Covariates, read of all samples or a subset; values compared BITWISE after write+read, names with the Lean uniqNames; every token of the written file is judged in Lean against the bits it was written from (FloatText.checkTok: exact integer test that the decimal lies in the rounding interval of the double, which by C15.decimal_reads_as_at_most_one_double no other double shares)",
        ),
        Section(
            name="read_handwritten",
            theorems=["C15.bad_rows_skipped_not_shifted", "C15.parsed_row_is_its_line", "C15.leading_comments_ignored", "C15.decimal_reads_as_at_most_one_double", "C15.checked_token_reads_back_everywhere", "C15.value_handed_out_is_the_correct_reading", "C15R.every_decimal_has_exactly_one_reading", "C15R.certified_reader_is_total"],
            gen=gen_parse,
            impl=impl_parse,
            model_req=model_req_parse,
            model_obs=model_obs_parse,
            equal=equal_parse,
            oracle=oracle_parse,
            setup=setup,
            teardown=teardown,
            nontrivial=lambda c, o: C.jdump(c),
            describe=lambda c, o: "some-rows-skipped" if isinstance(o, dict) and o.get("errors") else "all-rows-numeric",
            rule="hand-written files with leading comment lines and rows mixing numeric tokens (incl. ' 2.0', '3.', '.5', '+4', 'nan', '-inf') with NA / na / text / empty / malformed cells: the rows read must be exactly the parsable rows, each with its own sample ID and cells, and an error must be logged when something is skipped; a third of the files hold delicate tokens (ties between two doubles, values a hair off a tie, subnormal edges, 17+ digits) and the values of the model side are computed in Lean from the tokens alone (FloatText.readTok: a candidate by integer division, handed out only after its rounding-interval certificate, which by roundsTo_unique no other double passes) and every value the real reader returned is also judged against its token (FloatText.checkTok)",
        ),
        Section(
            name="table_operations",
            theorems=["C09R.standardize_mean_zero", "C09R.standardize_var_one", "C09R.code_algorithm_is_standardize", "C09R.second_centring_is_identity"],
            gen=gen_ops,
            impl=impl_ops,
            oracle=oracle_ops,
            nontrivial=lambda c, o: C.jdump(c),
            rule="standardize (mean 0 / variance 1 within 1e-9, all zeros iff constant, incl. columns of scale 1e-9 and 1e-12 and columns whose offset is 1e6..1e12 times their spread), append, subset (requested order, unknown samples dropped), check_missing (raise / discard exactly the rows holding -9)",
        ),
    ],
    trusted=["numpy array2string(floatmode='unique') prints every finite double as a decimal inside its rounding interval, and float64(token) rounds correctly (each written / read token of the run is decided exactly in Lean; that it holds for all doubles is not proved – no formalisation of Dragon4 / strtod)", "csv module tab splitting"],
    assumptions=["sample IDs and name tokens contain no tab or newline; values are finite"],
    partial="proved: a decimal is the correctly rounded reading of at most one double, hence any writer that stays inside the rounding interval is inverted by any correctly rounding reader (float_codec_contract); decided exactly per token of the run: that the real writer's tokens lie inside the interval. also proved: every decimal value has exactly one correctly rounded double (existence by the nearest-integer division of the certified reader, which therefore never fails). Not proved: that Dragon4 shortest printing stays inside the interval for every double and that strtod rounds correctly for every token",
    anchors=[("haptools/data/phenotypes.py", ["Phenotypes.write", "Phenotypes.__iter__", "Phenotypes._iterate", "Phenotypes.read", "Phenotypes.standardize", "Phenotypes.append", "Phenotypes.subset", "Phenotypes.check_missing"])],
)
