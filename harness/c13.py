"""C13 — QC checks raise exactly on offending data and discard exactly the offenders."""
from __future__ import annotations

import re

import numpy as np

from . import common as C
from . import simdata as SD
from .run import Check, Section

ALLELES = [0, 0, 0, 1, 1, 2, 253, 254, 255]
CLASSES = ["Genotypes", "GenotypesVCF", "GenotypesPLINK", "GenotypesAncestry"]
THR = [(0, 1), (1, 8), (1, 4), (3, 8), (1, 2), (1, 3), (1, 10), (1, 6), (1, 5), (1, 12), (3, 10)]  # ties with k/(2n) for n up to 6, incl. values that are not exact in binary


def gen(rng, tier):
    n = 2500 if tier == "quick" else 60000
    for t in range(n):
        cls = CLASSES[t % 4]
        ns, nv = rng.choice([1, 2, 3, 4, 4, 5, 6]), rng.randint(1, 4)
        if rng.random() < 0.05:
            ns, nv = rng.choice([17, 20, 25, 33, 40]), rng.randint(3, 20)  # medium sizes
        clean = rng.random() < 0.35  # mostly-valid stream: few offenders
        pool = [0, 0, 1, 1] + ([rng.choice(ALLELES)] if clean else ALLELES)
        if cls == "GenotypesAncestry":
            pool = [a for a in pool if a != 254]  # 254 is not "missing" for that class (only 255); kept out of scope
        data = [[[rng.choice(pool), rng.choice(pool), 1 if rng.random() < (0.9 if clean else 0.6) else 0] for _ in range(nv)] for _ in range(ns)]
        anc = None
        if cls == "GenotypesAncestry":
            anc = [[[rng.randint(0, 2), rng.randint(0, 2)] for _ in range(nv)] for _ in range(ns)]
        ops = []
        kinds = ["missing", "biallelic", "phase", "maf"]
        for _ in range(rng.randint(1, 4)):
            k = rng.choice(kinds)
            if k in ("missing", "biallelic"):
                ops.append({"k": k, "discard": rng.random() < 0.6})
            elif k == "phase":
                ops.append({"k": k})
            else:
                num, den = rng.choice(THR)
                ops.append({"k": k, "num": num, "den": den, "discard": rng.random() < 0.5, "warn": rng.random() < 0.3})
        if rng.random() < 0.15:
            ops = [{"k": "missing", "discard": False}, {"k": "biallelic", "discard": False}, {"k": "phase"}]  # what load() does
        names = [f"v{j}" for j in range(nv)]
        if rng.random() < (0.5 if cls == "GenotypesAncestry" else 0.2) and nv > 1:
            # variant IDs need not be unique: split multi-allelic sites keep their rsID, unnamed variants are all "."
            names = [rng.choice(["rsB", ".", f"v{j}"]) for j in range(nv)]
        if rng.random() < 0.04:
            # many samples of which only a handful are complete: what stays must stay in the order of the file
            ns = rng.randint(18, 64)
            keep = set(rng.sample(range(ns), rng.randint(2, 7)))
            data = [[[rng.choice([0, 1]), rng.choice([0, 1]), 1] for _ in range(nv)] for _ in range(ns)]
            for i in range(ns):
                if i not in keep:
                    data[i][rng.randrange(nv)][rng.randrange(2)] = 255
            if anc is not None:
                anc = [[[rng.randint(0, 2), rng.randint(0, 2)] for _ in range(nv)] for _ in range(ns)]
            ops = [{"k": "missing", "discard": True}] + ops[:1]
        if t % 20 == 7:
            # a fixed share: a cohort of 25 or 50 samples and a threshold typed as a decimal (0.14, 0.28, 0.07) that the minor allele
            # frequency of the first variant equals exactly (7 of 50, 14 of 50, 7 of 100 alleles): equal is not below
            ns, cnt, den = rng.choice([(25, 7, 50), (25, 14, 50), (50, 7, 100)])
            nv = max(nv, 2)
            names = [f"v{j}" for j in range(nv)]
            data = [[[rng.choice([0, 1]), rng.choice([0, 1]), 1] for _ in range(nv)] for _ in range(ns)]
            ones = set(rng.sample(range(2 * ns), cnt))
            minor = rng.choice([0, 1])  # the minor allele is the alternate or the reference allele
            for i in range(ns):
                for k_ in (0, 1):
                    data[i][0][k_] = (1 if (2 * i + k_) in ones else 0) ^ minor
            if anc is not None:
                anc = [[[rng.randint(0, 2), rng.randint(0, 2)] for _ in range(nv)] for _ in range(ns)]
            ops = [{"k": "maf", "num": cnt, "den": den, "discard": rng.random() < 0.5, "warn": rng.random() < 0.3}]
        yield {"cls": cls, "g": {"samples": [f"s{i}" for i in range(ns)], "vars": names, "data": data, "anc": anc, "hasPhase": True, "isBool": False, "ancestryClass": cls == "GenotypesAncestry"}, "ops": ops}


def build(case):
    from haptools import data as D
    from haptools.transform import GenotypesAncestry

    cls = {"Genotypes": D.Genotypes, "GenotypesVCF": D.GenotypesVCF, "GenotypesPLINK": D.GenotypesPLINK, "GenotypesAncestry": GenotypesAncestry}[case["cls"]]
    g = cls(fname="none.pgen" if case["cls"] == "GenotypesPLINK" else "none.vcf", log=SD.silent_log())
    gj = case["g"]
    g.samples = tuple(gj["samples"])
    nv = len(gj["vars"])
    if "alleles" in g.variants.dtype.names:
        g.variants = np.array([(v, "1", 10 * (j + 1), ("A", "C", "G")) for j, v in enumerate(gj["vars"])], dtype=g.variants.dtype)
    else:
        g.variants = np.array([(v, "1", 10 * (j + 1)) for j, v in enumerate(gj["vars"])], dtype=g.variants.dtype)
    g.data = np.array(gj["data"], dtype=np.uint8).reshape((len(gj["samples"]), nv, 3))
    if gj["anc"] is not None:
        g.ancestry = np.array(gj["anc"], dtype=np.uint8).reshape((len(gj["samples"]), nv, 2))
    return g


def snapshot(g, orig_samples, orig_vars):
    d = g.data
    has_phase = d.shape[2] == 3
    data = []
    for i in range(d.shape[0]):
        row = []
        for j in range(d.shape[1]):
            a, b = int(d[i, j, 0]), int(d[i, j, 1])
            row.append([a, b, int(bool(d[i, j, 2])) if has_phase else None])
        data.append(row)
    anc = None
    if getattr(g, "ancestry", None) is not None:
        anc = np.asarray(g.ancestry).astype(int).tolist()
    return {"samples": list(map(str, g.samples)), "vars": [str(v) for v in g.variants["id"]], "data": data, "anc": anc, "hasPhase": bool(has_phase), "isBool": bool(d.dtype == np.bool_)}


def _token_in(tok, msg):
    return re.search(r"(?<![\w.|+*()-])" + re.escape(tok) + r"(?![\w|+*()-])", msg) is not None


def named_in(msg, samples, variants):
    """which (sample, variant) pairs of the data an error message names, however it is worded: a sample by its ID, a variant by
    its position (chrom:pos) or, when the message holds no position of any variant, by its ID; sample index None = the message
    names no sample"""
    by_pos = [j for j, (vid, pos) in enumerate(variants) if _token_in(f":{pos}", msg) or _token_in(f"1:{pos}", msg)]
    vs = by_pos or [j for j, (vid, pos) in enumerate(variants) if _token_in(vid, msg)]
    ss = [i for i, name in enumerate(samples) if _token_in(name, msg)]
    return [[i, j] for i in (ss or [None]) for j in vs]


def impl(case):
    g = build(case)
    trace = []
    for o in case["ops"]:
        samples_before, vars_before = list(g.samples), [(str(v), int(p)) for v, p in zip(g.variants["id"], g.variants["pos"])]  # IDs may repeat
        try:
            maf = None
            if o["k"] == "missing":
                g.check_missing(discard_also=o["discard"])
            elif o["k"] == "biallelic":
                g.check_biallelic(discard_also=o["discard"])
            elif o["k"] == "phase":
                g.check_phase()
            else:
                maf = g.check_maf(threshold=o["num"] / o["den"], discard_also=o["discard"], warn_only=o["warn"])
        except ValueError as e:
            trace.append({"raised": {"named": named_in(str(e), samples_before, vars_before), "text": str(e)[:160]}})
            break
        e = {"state": snapshot(g, None, None)}
        if maf is not None:
            e["maf"] = [float(x) for x in maf]
        trace.append(e)
    return {"trace": trace}


def model_obs(case, resp):
    return resp


def _norm_state(s):
    s = dict(s)
    hp = s["hasPhase"]
    s["data"] = [[[c[0], c[1], (c[2] if hp else None)] for c in r] for r in s["data"]]
    return s


def equal(a, b):
    a, b = C.canon(C.strip_msg(a)), C.canon(C.strip_msg(b))
    if "error" in a or "error" in b:
        return a == b
    ta, tb = a["trace"], b["trace"]
    if len(ta) != len(tb):
        return False
    for x, y in zip(ta, tb):
        if ("raised" in x) != ("raised" in y):
            return False
        if "raised" in x:
            # which offender is named is not part of the observation (any offender satisfies the property);
            # the raise itself is
            continue
        if _norm_state(x["state"]) != _norm_state(y["state"]):
            return False
        if ("maf" in x) != ("maf" in y):
            return False
        if "maf" in x:
            if len(x["maf"]) != len(y["maf"]):
                return False
            for f, (k, d) in zip(x["maf"], y["maf"]):
                if d == 0:
                    if f == f:  # model: no samples -> NaN
                        return False
                elif abs(f - k / d) > 1e-12:
                    return False
    return True


def oracle(case, obs):
    """the property statement, step by step, on the implementation's trace (pure Python, no model)"""
    if "error" in obs:
        return f"raised {obs}"
    anc_cls = case["cls"] == "GenotypesAncestry"
    st = {"samples": case["g"]["samples"], "vars": case["g"]["vars"], "data": case["g"]["data"], "anc": case["g"]["anc"], "hasPhase": True, "isBool": False}
    for k, (o, e) in enumerate(zip(case["ops"], obs["trace"])):
        ns, nv = len(st["samples"]), len(st["vars"])
        D = st["data"]

        def miss(c):
            return (not st["isBool"]) and ((c[0] == 255 or c[1] == 255) if anc_cls else (c[0] >= 254 or c[1] >= 254))

        if o["k"] == "missing":
            off = {(i, j) for i in range(ns) for j in range(nv) if miss(D[i][j])}
            drop_s, drop_v = {i for i, _ in off}, set()
            must_raise = bool(off) and not o["discard"]
        elif o["k"] == "biallelic":
            off = set() if st["isBool"] else {(i, j) for i in range(ns) for j in range(nv) if D[i][j][0] > 1 or D[i][j][1] > 1}
            drop_s, drop_v = set(), {j for _, j in off}
            must_raise = bool(off) and not o["discard"]
        elif o["k"] == "phase":
            off = set()
            if st["hasPhase"]:
                for i in range(ns):
                    for j in range(nv):
                        a, b, ph = D[i][j]
                        het = a != b and (st["isBool"] or (a < 254 and b < 254))
                        if het and not ph:
                            off.add((i, j))
            drop_s, drop_v = set(), set()
            must_raise = bool(off)
        else:
            from fractions import Fraction

            thr = Fraction(o["num"], o["den"])
            mafs = []
            for j in range(nv):
                kk = sum((1 if D[i][j][0] else 0) + (1 if D[i][j][1] else 0) for i in range(ns))
                mafs.append(min(Fraction(kk, 2 * ns), 1 - Fraction(kk, 2 * ns)) if ns else None)
            rare = {j for j in range(nv) if mafs[j] is not None and mafs[j] < thr}
            off = {(0, j) for j in rare}
            drop_s, drop_v = set(), rare
            must_raise = bool(rare) and not o["discard"] and not o["warn"]
        if must_raise:
            if "raised" not in e:
                return f"step {k} {o}: offending data {sorted(off)[:3]} but no error was raised"
            r = e["raised"]
            named = [tuple(x) for x in r["named"]]
            if o["k"] == "maf":
                if not named:
                    return f"step {k} {o}: the error names no variant of the data (neither a position nor an ID): {r['text']!r}"
                if not ({j for _, j in named} & {j for _, j in off}):
                    return f"step {k} {o}: the error names variant(s) {sorted({j for _, j in named})}, none of which is below the threshold: {r['text']!r}"
            else:
                if not named or all(i is None for i, _ in named):
                    return f"step {k} {o}: the error does not name a sample and a variant of the data: {r['text']!r}"
                if not (set(named) & off):
                    return f"step {k} {o}: the error names {named[:3]} (sample, variant), none of which is an offending call; offenders {sorted(off)[:4]}: {r['text']!r}"
            return None
        if "raised" in e:
            return f"step {k} {o}: raised {e['raised']} although nothing offends (or discard/warn mode)"
        s2 = e["state"]
        discard = o.get("discard", False)
        keep_s = [i for i in range(ns) if not (discard and i in drop_s)]
        keep_v = [j for j in range(nv) if not (discard and j in drop_v)]
        exp_samples = [st["samples"][i] for i in keep_s]
        exp_vars = [st["vars"][j] for j in keep_v]
        if s2["samples"] != exp_samples:
            return f"step {k} {o}: samples {s2['samples']} expected {exp_samples}"
        if s2["vars"] != exp_vars:
            return f"step {k} {o}: variants {s2['vars']} expected {exp_vars}"
        to_bool = o["k"] == "biallelic" and not st["isBool"]
        strip = o["k"] == "phase" and st["hasPhase"]
        hp = st["hasPhase"] and not strip
        exp_data = [[[(1 if D[i][j][0] else 0) if to_bool else D[i][j][0], (1 if D[i][j][1] else 0) if to_bool else D[i][j][1], D[i][j][2] if hp else None] for j in keep_v] for i in keep_s]
        got = [[[c[0], c[1], c[2] if hp else None] for c in r] for r in s2["data"]]
        if got != exp_data:
            return f"step {k} {o}: untouched genotype values changed, or wrong rows/columns removed: got {got} expected {exp_data}"
        if st["anc"] is not None:
            exp_anc = [[st["anc"][i][j] for j in keep_v] for i in keep_s]
            if s2["anc"] != exp_anc:
                return f"step {k} {o}: ancestry array {s2['anc']} not in step with the genotypes, expected {exp_anc}"
        if s2["hasPhase"] != hp:
            return f"step {k} {o}: phase plane present={s2['hasPhase']}, expected {hp}"
        if o["k"] == "maf":
            exp_m = [mafs[j] for j in keep_v]
            if len(e["maf"]) != len(exp_m):
                return f"step {k} {o}: {len(e['maf'])} frequencies returned for {len(exp_m)} variants"
            for f, m in zip(e["maf"], exp_m):
                if m is None:
                    continue
                if abs(f - float(m)) > 1e-12:
                    return f"step {k} {o}: reported MAF {f}, expected min(f,1-f)={float(m)}"
        st = {"samples": exp_samples, "vars": exp_vars, "data": exp_data if hp else [[[c[0], c[1], 1] for c in r] for r in exp_data], "anc": s2["anc"] if st["anc"] is not None else None, "hasPhase": hp, "isBool": st["isBool"] or to_bool}
    # default loaders: data that passed missing+biallelic+phase satisfies the three postconditions
    return None


def describe(case, obs):
    tags = [case["cls"]]
    if isinstance(obs, dict) and "trace" in obs:
        tags.append("raised" if any("raised" in e for e in obs["trace"]) else "completed")
        for o, e in zip(case["ops"], obs["trace"]):
            if "state" in e and o.get("discard"):
                tags.append(f"{o['k']}-discard")
            if "state" in e and (not e["state"]["samples"] or not e["state"]["vars"]):
                tags.append("all-discarded")
    return sorted(set(tags))


def variants(case):
    ops = case["ops"]
    for i in range(len(ops)):
        yield {**case, "ops": ops[:i] + ops[i + 1 :]}
    for k in range(1, len(ops)):
        yield {**case, "ops": ops[:k]}


# ------------------------------------------------------------------ default loaders (file backed)
_dir = None


def setup():
    global _dir
    _dir = C.scratch_dir("c13")
    return _dir


def teardown(_):
    C.rm_tree(_dir)


def gen_load(rng, tier):
    n = 60 if tier == "quick" else 1200
    for t in range(n):
        ns, nv = rng.randint(1, 3), rng.randint(1, 4)
        bad = rng.random() < 0.6
        calls = []
        for i in range(ns):
            row = []
            for j in range(nv):
                r = rng.random()
                if bad and r < 0.12:
                    row.append(rng.choice([".|.", "0|.", "./0", "1|2", "2|0", "0/1", "1/0", "1/2"]))
                else:
                    row.append(rng.choice(["0|0", "0|1", "1|0", "1|1", "0/0", "1/1"]))
            calls.append(row)
        if ns > 1 and rng.random() < 0.3:
            # one sample whose only offence is an unphased heterozygous call, all other samples clean
            calls = [[rng.choice(["0|0", "0|1", "1|0", "1|1", "0/0", "1/1"]) for _ in range(nv)] for _ in range(ns)]
            calls[rng.randrange(ns)][rng.randrange(nv)] = rng.choice(["0/1", "1/0"])
        yield {"calls": calls}


def impl_load(case):
    from haptools import data as D

    ns, nv = len(case["calls"]), len(case["calls"][0])
    f = _dir / "l.vcf"
    with open(f, "w") as o:
        o.write("##fileformat=VCFv4.2\n##contig=<ID=1>\n##FORMAT=<ID=GT,Number=1,Type=String,Description=\"GT\">\n")
        o.write("#CHROM\tPOS\tID\tREF\tALT\tQUAL\tFILTER\tINFO\tFORMAT\t" + "\t".join(f"s{i}" for i in range(ns)) + "\n")
        for j in range(nv):
            o.write(f"1\t{10*(j+1)}\tv{j}\tA\tC,G\t.\t.\t.\tGT\t" + "\t".join(case["calls"][i][j] for i in range(ns)) + "\n")
    out = {}
    for name, cls in (("Genotypes", D.Genotypes), ("GenotypesVCF", D.GenotypesVCF)):
        try:
            g = cls.load(str(f))
            out[name] = {"ok": True, "data": g.data.astype(int).tolist(), "planes": int(g.data.shape[2]), "samples": list(g.samples), "vars": [str(v) for v in g.variants["id"]]}
        except ValueError as e:
            out[name] = {"ok": False, "msg": str(e)[:100]}
        # the same object used again: loaded for the samples whose calls are all clean, then read() for everybody and
        # checked by hand – whatever load() left on the object must not switch a check off
        clean = [i for i in range(ns) if not any(_offends(c) for c in case["calls"][i])]
        if clean and len(clean) < ns:
            try:
                g = cls.load(str(f), samples={f"s{i}" for i in clean})
                g.read()
                try:
                    g.check_missing()
                    g.check_biallelic()
                    g.check_phase()
                    out[name + "_reread"] = {"ok": True}
                except ValueError as e:
                    out[name + "_reread"] = {"ok": False, "msg": str(e)[:100]}
            except ValueError as e:
                out[name + "_reread"] = {"ok": True, "first_load_failed": str(e)[:100]}
    return out


def _offends(c):
    a, sep, b = c[0], c[1], c[2]
    return a == "." or b == "." or a in "23" or b in "23" or (sep == "/" and a != b)


def oracle_load(case, obs):
    if "error" in obs:
        return f"load raised {obs}"
    calls = case["calls"]
    offending = False
    for row in calls:
        for c in row:
            a, sep, b = c[0], c[1], c[2]
            if a == "." or b == ".":
                offending = True
            elif a in "23" or b in "23":
                offending = True
            elif sep == "/" and a != b:
                offending = True
    for name, r in obs.items():
        if name.endswith("_reread"):
            if "first_load_failed" in r:
                return f"{name}: load of the clean samples only raised {r['first_load_failed']}"
            if r["ok"]:
                return f"{name}: an object obtained from load() for the clean samples, re-read for all samples, passes all three checks although the file has a missing / multiallelic / unphased heterozygous call"
            continue
        if offending and r["ok"]:
            return f"{name}.load returned data although the file has a missing / multiallelic / unphased heterozygous call"
        if not offending:
            if not r["ok"]:
                return f"{name}.load raised on clean data: {r['msg']}"
            exp = [[[int(c[0]), int(c[2])] for c in row] for row in calls]
            if r["data"] != exp or r["planes"] != 2:
                return f"{name}.load returned {r['data']} for {calls}"
    return None


CHECK = Check(
    id="C13",
    title="QC checks raise exactly on offending data and discard exactly the offenders",
    theorems=[
        "C13.missing_raises_iff",
        "C13.missing_error_names_offender",
        "C13.missing_discard_exact",
        "C13.missing_discard_post",
        "C13.biallelic_raises_iff",
        "C13.biallelic_error_names_offender",
        "C13.biallelic_discard_exact",
        "C13.phase_raises_iff",
        "C13.phase_error_names_offender",
        "C13.phase_strips",
        "C13.maf_formula",
        "C13.maf_raises_iff",
        "C13.maf_error_names_offender",
        "C13.maf_discard_exact",
        "C13.untouched_preserved",
        "C13.parallel_arrays_aligned",
    ],
    sections=[
        Section(
            name="qc_sequences",
            theorems=["C13.missing_raises_iff", "C13.missing_discard_exact", "C13.biallelic_raises_iff", "C13.biallelic_discard_exact", "C13.phase_raises_iff", "C13.phase_strips", "C13.maf_formula", "C13.maf_raises_iff", "C13.maf_discard_exact"],
            gen=gen,
            impl=impl,
            model_req=lambda c: {"op": "qc", "g": c["g"], "ops": c["ops"]},
            model_obs=model_obs,
            equal=equal,
            oracle=oracle,
            describe=describe,
            variants=variants,
            nontrivial=lambda c, o: C.jdump(c) if isinstance(o, dict) and any(("raised" in e) or (op.get("discard") and len(e["state"]["samples"]) * len(e["state"]["vars"]) < len(c["g"]["samples"]) * len(c["g"]["vars"])) for op, e in zip(c["ops"], o.get("trace", []))) else None,
            rule="seeded random arrays up to 6x4 with allele indices from {0,1,2,253,254,255} (a mostly-valid stream and a dense-offender stream), all phase patterns, sequences of 1-4 checks in any order with discard / raise / warn modes, thresholds {0,1/8,1/4,3/8,1/2,1/3,1/10,1/6,1/5,1/12,3/10} (ties included, also at frequencies that are not exact in binary), the four classes in rotation (ancestry array in parallel); variant IDs repeated in a fifth of the cases (shared rsID, '.'); 18-64 samples of which 2-7 are complete; non-trivial = some step raised or discarded something",
        ),
        Section(
            name="default_loaders",
            theorems=["C13.missing_raises_iff", "C13.biallelic_raises_iff", "C13.phase_raises_iff"],
            gen=gen_load,
            impl=impl_load,
            oracle=oracle_load,
            setup=setup,
            teardown=teardown,
            nontrivial=lambda c, o: C.jdump(c),
            describe=lambda c, o: "rejected" if isinstance(o, dict) and not o.get("Genotypes", {}).get("ok", True) else "loaded",
            rule="seeded random VCF files (1-3 samples x 1-4 variants, tri-allelic records, missing / half-missing / multiallelic / unphased calls) through Genotypes.load and GenotypesVCF.load: returned data must satisfy the three postconditions, offending files must be rejected",
        ),
    ],
    trusted=["numpy contracts: np.nonzero is row-major, np.delete removes the listed indices, astype(bool) is `!= 0`", "error-message parsing by the harness (sample and variant are recovered from the message text)"],
    assumptions=["for GenotypesAncestry the value 254 is outside the generated domain: that class documents only 255 as missing while the base class documents >= 254"],
    anchors=[("haptools/data/genotypes.py", ["Genotypes.check_missing", "Genotypes.check_biallelic", "Genotypes.check_phase", "Genotypes.check_maf", "Genotypes.load"]), ("haptools/transform.py", ["GenotypesAncestry.check_missing", "GenotypesAncestry.check_biallelic", "GenotypesAncestry.check_maf"])],
)
