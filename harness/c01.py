"""C01 — simulated local ancestry is inherited unchanged from the parental haplotypes."""
from __future__ import annotations

import os

import itertools

from . import common as C
from . import simdata as SD
from .run import Check, Section

MAX = SD.MAX


def _mk(segs):
    from haptools.admix_storage import HaplotypeSegment as S

    return [S(p, c, e, float(m)) for p, c, e, m in segs]


# ------------------------------------------------------------------ kernel: start_segment / get_segment
def gen_kernel(rng, tier):
    pts = (2, 4, 6)
    ends_opts = [()] + [c for r in (1, 2, 3) for c in itertools.combinations(pts, r)]
    if tier == "quick":
        ends_opts = [e for e in ends_opts if len(e) <= 2]
    for e1 in ends_opts:
        for e2 in [None, (), (3,)]:
            nl = len(e1) + 1 + (0 if e2 is None else len(e2) + 1)
            for labs in itertools.product((1, 2), repeat=nl):
                li = iter(labs)
                segs = [[next(li), 1, e, 10 * i] for i, e in enumerate(list(e1) + [MAX])]
                if e2 is not None:
                    segs += [[next(li), 2, e, 7 * i] for i, e in enumerate(list(e2) + [MAX])]
                for chrom in [1, 2] if e2 is not None else [1]:
                    for st in range(0, 8):
                        for en in list(range(st, 8)) + [MAX]:
                            yield {"pop": 0, "chrom": chrom, "st": st, "en": en, "cm": 77, "segs": segs}
    # random: many tracts, three chromosomes incl. 23, wide coordinates, also source-population calls
    for _ in range(1500 if tier == "quick" else 60000):
        segs = []
        chroms = sorted(rng.sample([1, 2, 5, 23], rng.randint(1, 3)))
        for c in chroms:
            ends = sorted(rng.sample(range(1, 60), rng.randint(0, 6))) + [MAX]
            for i, e in enumerate(ends):
                segs.append([rng.randint(1, 3), c, e, 3 * i])
        c = rng.choice(chroms)
        st = rng.randint(0, 60)
        en = rng.choice([MAX, st, st + rng.randint(0, 30)])
        yield {"pop": rng.choice([0, 0, 0, 2]), "chrom": c, "st": st, "en": en, "cm": rng.randint(0, 500), "segs": segs}
    # old, heavily recombined parents: dozens of tracts per chromosome, intervals spanning more than 32 of them
    for _ in range(60 if tier == "quick" else 3000):
        segs = []
        chroms = sorted(rng.sample([1, 2, 5, 23], rng.randint(1, 3)))
        for c in chroms:
            ends = sorted(rng.sample(range(1, 2000), rng.choice([10, 11, 12, 30, 33, 40, 70]))) + [MAX]
            for i, e in enumerate(ends):
                segs.append([rng.randint(1, 5), c, e, 3 * i])
        c = rng.choice(chroms)
        st = rng.choice([0, 0, rng.randint(0, 2000)])
        en = rng.choice([MAX, MAX, st + rng.randint(0, 2000)])
        yield {"pop": 0, "chrom": c, "st": st, "en": en, "cm": rng.randint(0, 500), "segs": segs}


def impl_kernel(case):
    import haptools.sim_genotype as sg

    par = _mk(case["segs"])
    i = sg.start_segment(case["st"], case["chrom"], par)
    try:
        out = [SD.seg_t(s) for s in sg.get_segment(case["pop"], 0, case["chrom"], case["st"], case["en"], float(case["cm"]), [par])]
    except Exception as e:
        out = C.err_obs(e)
    after = [SD.seg_t(s) for s in par]
    return {"start": int(i), "out": out, "parent_unchanged": after == case["segs"]}


def model_obs_kernel(case, resp):
    return {"start": resp["start"], "out": resp["out"], "parent_unchanged": True}


def eq_kernel(a, b):
    # observation level: the label function (run-length form) and tract structure = the literal list here;
    # `start` is an internal index: compared only as raw drift (not part of the observation)
    a, b = C.canon(C.strip_msg(a)), C.canon(C.strip_msg(b))
    if "error" in a or "error" in b:
        return a == b
    return a["out"] == b["out"] and a["parent_unchanged"] == b["parent_unchanged"]


def oracle_kernel(case, obs):
    if "error" in obs:
        return f"raised {obs}"
    out = obs["out"]
    c, st, en = case["chrom"], case["st"], case["en"]
    if not obs["parent_unchanged"]:
        return "get_segment modified the parental haplotype it copied from"
    if isinstance(out, dict):
        return f"get_segment raised {out} for a parent covering the interval"
    if case["pop"]:
        if out != [[case["pop"], c, en, case["cm"]]]:
            return f"source-population individual got {out}"
        return None
    par = case["segs"]
    # positions to test: every tract end of parent and child +-1 inside [st,en], and the interval ends
    pts = {st, en}
    for s in par + out:
        if s[1] == c:
            for d in (-1, 0, 1):
                p = s[2] + d
                if st <= p <= en:
                    pts.add(p)
    for p in sorted(pts):
        a, b = SD.label_at(out, c, p), SD.label_at(par, c, p)
        if a != b:
            return f"label at chr{c}:{p} is {a} in the copy but {b} in the parent (interval [{st},{en}])"
    # tract structure: parental tracts ending inside [st,en) are kept as they are, then one closing tract at en
    body = [s for s in par if s[1] == c and st <= s[2] < en]
    if out[:-1] != body:
        return f"copied tracts {out[:-1]} differ from the parental tracts ending inside the interval {body}"
    if out[-1][1:3] != [c, en] or out[-1][3] != case["cm"]:
        return f"closing tract {out[-1]} does not end at ({c},{en},cM {case['cm']})"
    return None


def describe_kernel(case, obs):
    par = [s for s in case["segs"] if s[1] == case["chrom"]]
    inside = [s for s in par if case["st"] <= s[2] < case["en"]]
    k = "inside-one-tract" if not inside else ("spans-1-breakpoint" if len(inside) == 1 else "spans-several")
    tags = [k]
    if case["en"] == MAX:
        tags.append("to-chromosome-end")
    if any(s[2] == case["en"] for s in par):
        tags.append("ends-on-tract-end")
    if case["pop"]:
        tags.append("source-pop")
    return tags


def variants_kernel(case):
    segs = case["segs"]
    for i in range(len(segs)):
        if segs[i][2] != MAX:
            yield {**case, "segs": segs[:i] + segs[i + 1 :]}


# ------------------------------------------------------------------ whole simulation with recorded tapes
_dir = None


def setup():
    global _dir
    _dir = C.scratch_dir("c01")
    return _dir


def teardown(_):
    C.rm_tree(_dir)


def gen_sim(rng, tier):
    n = 80 if tier == "quick" else 1500
    for i in range(n):
        chroms, maps = SD.gen_maps(rng, max_markers=rng.choice([3, 6, 10]))
        model = SD.gen_model(rng, max_lines=rng.randint(1, 4))
        region = None
        if i % 4 == 3:
            c = rng.choice(chroms)
            bps = [b for b, _ in maps[c]]
            a = rng.choice(bps + [bps[0] - 1, 1])
            b = rng.choice([x for x in bps + [bps[-1] + 5] if x >= a] or [a])
            region = {"chr": c, "start": a, "end": b}
        yield {"model": model, "chroms": chroms, "maps": {c: maps[c] for c in chroms}, "region": region, "popsize": rng.choice([10, 12, 20]), "seed": rng.randrange(2**32)}


def run_sim(case):
    d = _dir / "sim"
    C.rm_tree(d)
    d.mkdir(parents=True)
    SD.write_model(d / "model.dat", case["model"])
    SD.write_maps(d / "maps", case["maps"])
    chroms = [case["region"]["chr"]] if case["region"] else case["chroms"]
    return SD.instrumented_simulate(str(d / "model.dat"), str(d / "maps"), chroms, case["region"], case["popsize"], case["seed"])


_last = {}


def gens_of(r):
    """per generation of an instrumented run: parents, children, get_segment calls and the decoded random tapes"""
    gens = []
    for g in r["gens"]:
        calls, complete = SD.split_calls(g)
        try:
            if os.environ.get("VERIF_TAPES") == "calls":  # experiment: exercise the fallback on the unchanged tree
                raise AssertionError("forced")
            tapes = SD.decode_generation(g)
        except Exception:  # noqa: the generator's log has another shape than the decoder knows
            try:
                tapes = SD.tapes_from_calls(g)
            except Exception:  # noqa
                tapes = None
        gens.append(dict(chroms=g["chroms"], cmEnd=[int(round(e[1])) for e in g["end_coords"]], endBp=[e[0] for e in g["end_coords"]], prev=g["prev"], prev_after=g["prev_after"], children=g["children"], calls=calls, calls_complete=complete, tapes=tapes))
    return gens


def _bp_file_check(r):
    """the .bp file `write_breakpoints` writes for the last generation: every haplotype it returns is one of the last generation,
    tract for tract, and the file holds exactly these, in order (label names via the population dictionary)"""
    import haptools.sim_genotype as sg

    final = [[SD.seg_t(s_) for s_ in h] for h in r["final"]]
    out = sg.write_breakpoints(r["num_samples"], r["pop_dict"], r["final"], str(_dir / "sim" / "written"), SD._log)
    chosen = [[SD.seg_t(s_) for s_ in h] for h in out]
    pool = list(final)
    for h in chosen:
        if h not in pool:
            return f"write_breakpoints returned the haplotype {h}, which is not one of the last generation (or was returned twice)"
        pool.remove(h)
    strands, cur = [], None
    for line in open(_dir / "sim" / "written.bp").read().split("\n"):
        f = line.split("\t")
        if len(f) == 1:
            if f[0]:
                cur = []
                strands.append(cur)
        else:
            cm = float(f[3])
            cur.append([f[0], int(f[1]), int(f[2]), int(round(cm)) if abs(cm - round(cm)) < 1e-9 else cm])
    want = [[[str(r["pop_dict"][t[0]]), t[1], t[2], t[3]] for t in h] for h in chosen]
    if len(strands) != 2 * r["num_samples"]:
        return f"the .bp file holds {len(strands)} strands for {r['num_samples']} samples"
    for k, (a, b) in enumerate(zip(strands, want)):
        if a != b:
            return f"strand {k} of the .bp file is {a}; the simulated haplotype it was written from is {b} (a tract was dropped, added or changed on the way to the file)"
    return None


def impl_sim(case):
    r = run_sim(case)
    gens = gens_of(r)
    _last[C.jdump(case)] = gens
    with C.glue("comparing the written .bp file with the last generation"):
        bp_file = _bp_file_check(r)
    return {"bp_file": bp_file, "gens": [dict(children=g["children"], calls=[[c[:6] for c in cs] for cs in g["calls"]]) for g in gens], "all": [g["children"] for g in gens] if _chainable(gens) else None}


def _chainable(gens):
    return bool(gens) and all(g["tapes"] is not None for g in gens)


def model_req_sim(case):
    gens = _last.get(C.jdump(case)) or []
    reqs = [dict(op="simGen", chroms=g["chroms"], cmEnd=g["cmEnd"], prev=g["prev"], samples=g["tapes"] or []) for g in gens]
    if _chainable(gens):
        # the whole run inside the model: every generation from the model's own previous one (Plan.simulateAll)
        reqs.append(dict(op="simAll", chroms=gens[0]["chroms"], cmEnd=gens[0]["cmEnd"], gens=[g["tapes"] for g in gens]))
    return {"op": "batch", "reqs": reqs}


def model_obs_sim(case, resp):
    gens = _last.get(C.jdump(case)) or []
    out = []
    for g, r in zip(gens, resp["resps"]):
        calls = []
        for smp, tp in zip(r["samples"], g["tapes"] or []):
            calls.append([[tp["pop"], tp["haps"][c[4]], g["chroms"][c[0]], c[1], c[2], float(c[3])] for c in smp["plan"]])
        out.append(dict(children=[s["child"] for s in r["samples"]], calls=calls))
    return {"bp_file": None, "gens": out, "all": resp["resps"][len(gens)]["gens"] if _chainable(gens) else None}


def oracle_sim(case, obs):
    if "error" in obs:
        return f"simulate_gt raised {obs} on a valid model"
    gens = _last.get(C.jdump(case))
    if obs.get("bp_file"):
        return obs["bp_file"]
    for gi, g in enumerate(gens):
        if gi and g["prev"] != gens[gi - 1]["children"]:
            return f"generation {gi}: the parents offered to _simulate are not the children of generation {gi-1}"
        if g["prev"] != g["prev_after"]:
            return f"generation {gi}: the parental population was modified while its children were simulated"
        if not g["calls_complete"]:
            return f"generation {gi}: get_segment calls do not add up to the children"
        chroms = g["chroms"]
        for si, (child, calls) in enumerate(zip(g["children"], g["calls"])):
            # (1) the copies tile every chromosome in order from 0 to MAX
            k = 0
            for ci, c in enumerate(chroms):
                st = 0
                while True:
                    if k >= len(calls):
                        return f"gen {gi} sample {si}: chromosome {c} not completed"
                    cl = calls[k]
                    k += 1
                    if cl[2] != c or cl[3] != st:
                        return f"gen {gi} sample {si}: copy {cl} does not continue chromosome {c} at {st}"
                    if cl[4] == MAX:
                        break
                    st = cl[4] + 1
            if k != len(calls):
                return f"gen {gi} sample {si}: {len(calls)-k} extra copies"
            pops = {cl[0] for cl in calls}
            if len(pops) != 1:
                return f"gen {gi} sample {si}: founding population changes between copies"
            pop = pops.pop()
            if pop:
                for s in child:
                    if s[0] != pop:
                        return f"gen {gi} sample {si}: source individual of population {pop} carries label {s[0]}"
                if [s[1] for s in child] != chroms or any(s[2] != MAX for s in child):
                    if {(s[1]) for s in child} != set(chroms):
                        return f"gen {gi} sample {si}: source individual lacks a chromosome"
                continue
            parents = sorted({cl[1] for cl in calls})
            if len(parents) > 2:
                return f"gen {gi} sample {si}: copies from {len(parents)} parental haplotypes"
            # (2) between recombination points the child equals the chosen parent at every position
            off = 0
            for cl in calls:
                _, hap, c, st, en, cm, nout = cl
                par = g["prev"][hap]
                piece = child[off : off + nout]
                off += nout
                pts = {st, en}
                for s in par + piece:
                    if s[1] == c:
                        for dd in (-1, 0, 1):
                            if st <= s[2] + dd <= en:
                                pts.add(s[2] + dd)
                for p in pts:
                    a, b = SD.label_at(piece, c, p), SD.label_at(par, c, p)
                    if a != b:
                        return f"gen {gi} sample {si}: label at chr{c}:{p} is {a}, parental haplotype {hap} has {b} (copy [{st},{en}])"
                body = [s for s in par if s[1] == c and st <= s[2] < en]
                if piece[:-1] != body:
                    return f"gen {gi} sample {si}: tracts {piece[:-1]} differ from the parental tracts {body} inside [{st},{en}] of chr{c}"
            # (3) the child is again well formed
            for c in chroms:
                ends = [s[2] for s in child if s[1] == c]
                if not ends or ends[-1] != MAX or any(a >= b for a, b in zip(ends, ends[1:])):
                    return f"gen {gi} sample {si}: chromosome {c} has tract ends {ends}"
    return None


def describe_sim(case, obs):
    gens = _last.get(C.jdump(case)) or []
    rec = sum(1 for g in gens for cs in g["calls"] if len(cs) > len(g["chroms"]))
    return [f"generations-simulated={len(gens)}", "region" if case["region"] else "whole-chromosomes", f"chromosomes={len(case['chroms']) if not case['region'] else 1}", "with-recombination" if rec else "no-recombination"]


def nontrivial_sim(case, obs):
    gens = _last.get(C.jdump(case)) or []
    multi = any(len([s for s in h if s[1] == h[0][1]]) > 1 for g in gens for h in g["children"] if h)
    return C.jdump(case) if multi else None


CHECK = Check(
    id="C01",
    title="Simulated local ancestry is inherited unchanged from the parental haplotypes",
    theorems=[
        "C01.startSegment_spec",
        "C01.getSegment_copy",
        "C01.getSegment_source",
        "C01.plan_tiles",
        "C01.exec_mosaic",
        "C01.child_wf",
        "C01.source_individual",
        "C01.copy_from_wf_parent",
        "C01.sample_wf",
        "C01.every_generation_wf",
        "C01.no_label_invented",
        "C01.getSegmentOld_refuted",
    ],
    sections=[
        Section(
            name="get_segment",
            theorems=["C01.startSegment_spec", "C01.getSegment_copy", "C01.getSegment_source"],
            gen=gen_kernel,
            impl=impl_kernel,
            model_req=lambda c: {"op": "getSegment", **c},
            model_obs=model_obs_kernel,
            equal=eq_kernel,
            oracle=oracle_kernel,
            describe=describe_kernel,
            variants=variants_kernel,
            nontrivial=lambda c, o: C.jdump(c) if any(c["st"] <= s[2] < c["en"] and s[1] == c["chrom"] for s in c["segs"]) else None,
            rule="exhaustive: all parents over <=2 chromosomes with tract ends from {2,4,6}+MAX (<=2 inner ends quick, <=3 thorough), labels {1,2}, all (st,en) with st in 0..7, en in st..7 or MAX; plus seeded random parents with up to 7 tracts on up to 3 chromosomes (incl. 23) and source-population calls, and parents with 10-70 tracts per chromosome whose copied interval spans dozens of them; non-trivial = the interval spans at least one parental breakpoint",
        ),
        Section(
            name="simulate_gt",
            theorems=["C01.plan_tiles", "C01.exec_mosaic", "C01.child_wf", "C01.source_individual", "C01.copy_from_wf_parent", "C01.sample_wf", "C01.every_generation_wf", "C01.no_label_invented"],
            gen=gen_sim,
            impl=impl_sim,
            model_req=model_req_sim,
            model_obs=model_obs_sim,
            oracle=oracle_sim,
            describe=describe_sim,
            nontrivial=nontrivial_sim,
            setup=setup,
            teardown=teardown,
            rule="seeded random models (1-4 generation lines, 2-4 source populations, zero fractions, pulses), maps (1-4 chromosomes incl. X, 2-10 markers, flat and steep cM), optional --region, popsize 10-20; np.random as seen by sim_genotype, _simulate and get_segment are wrapped in-process, the recorded tapes are replayed into the Lean plan/exec model and every generation's population is compared tract by tract, once generation by generation from the real parents and once as a whole run inside the model (Plan.simulateAll, the function the generation invariant is proved about); non-trivial = some child has more than one tract on a chromosome",
        ),
    ],
    trusted=["numpy boolean masking and Python's sort turn the random matrix into the (chromosome, position)-sorted list of recombination markers (computed by the harness from the recorded draws)", "HaplotypeSegment getters"],
    assumptions=["genetic maps have strictly increasing bp and non-decreasing cM (documented); chromosome lists are sorted"],
    anchors=[("haptools/sim_genotype.py", ["get_segment", "start_segment", "_simulate", "simulate_gt", "_prepare_coords"]), ("haptools/admix_storage.py", ["HaplotypeSegment.__init__"])],
)
