"""C12 — by-ID operations always act on the object's current contents."""
from __future__ import annotations

import itertools

import numpy as np

from . import common as C
from . import gtfiles as GF
from . import simdata as SD
from .run import Check, Section

_dir = None
SAMPLES = ["s0", "s1", "s2"]
VARS = [("v1", "1", 10, ["A", "C"]), ("v2", "1", 20, ["A", "C"]), ("v3", "1", 30, ["A", "C", "G"]), ("v4", "2", 15, ["A", "C"])]  # v3 is tri-allelic
DATA = [
    [(0, 1, 1), (1, 1, 1), (0, 0, 1), (1, 0, 1)],
    [(1, 0, 1), (255, 255, 1), (0, 1, 1), (0, 0, 1)],
    [(0, 0, 1), (0, 1, 1), (2, 1, 1), (0, 1, 1)],
]
POPS = [[("A", "B"), ("B", "B"), ("A", "A"), ("C", "A")], [("B", "A"), ("A", "A"), ("A", "C"), ("A", "A")], [("A", "A"), ("A", "B"), ("B", "B"), ("B", "C")]]  # label C only at the last two variants: a read of the first ones never meets it
CLASSES = ["Genotypes", "GenotypesVCF", "GenotypesPLINK", "GenotypesAncestry"]


def setup():
    global _dir
    _dir = C.scratch_dir("c12")
    GF.write_vcf_text(_dir / "g.vcf", SAMPLES, VARS, DATA)
    GF.compress_index(_dir / "g.vcf", _dir / "g.vcf.gz")
    # GenotypesAncestry cannot read missing calls at all under numpy >= 2 (np.array(variant.genotypes, uint8) overflows on -1):
    # its fixture has no missing call (observation recorded in DESIGN.md, outside the listed properties)
    data_a = [[(0, 0, 1) if c[0] == 255 else c for c in r] for r in DATA]
    GF.write_vcf_text(_dir / "a.vcf", SAMPLES, VARS, data_a, pops=POPS)
    GF.compress_index(_dir / "a.vcf", _dir / "a.vcf.gz")
    GF.write_pgen(_dir / "g", SAMPLES, VARS, DATA)
    # the haplotypes section transforms bi-allelic genotypes
    vars_b = [(_long(v[0]), v[1], v[2], v[3][:2]) for v in VARS]
    data_b = [[(min(c[0], 1) if c[0] != 255 else 255, min(c[1], 1) if c[1] != 255 else 255, c[2]) for c in r] for r in DATA]
    GF.write_vcf_text(_dir / "gb.vcf", SAMPLES, vars_b, data_b)
    GF.compress_index(_dir / "gb.vcf", _dir / "gb.vcf.gz")
    # phenotypes
    with open(_dir / "p.pheno", "w") as f:
        f.write("#IID\tp0\tp1\tp2\n")
        for i, s in enumerate(["s0", "s1", "s2", "s3"]):
            vals = [i + 1, 10 * (i + 1), -9 if i == 2 else 7 + i]
            f.write(s + "\t" + "\t".join(str(v) for v in vals) + "\n")
    # haplotypes
    with open(_dir / "h.hap", "w") as f:
        f.write("H\t1\t10\t30\tH1\nH\t1\t20\t30\tH2\nR\t2\t15\t18\tR1\nH\t2\t15\t15\tH3\n")
        f.write(f"V\tH1\t30\t31\t{_long('v3')}\tA\nV\tH1\t10\t11\t{_long('v1')}\tC\nV\tH2\t20\t21\t{_long('v2')}\tC\nV\tH2\t30\t31\t{_long('v3')}\tC\nV\tH3\t15\t16\t{_long('v4')}\tC\n")  # H1's V lines are not in position order
    return _dir


def teardown(_):
    C.rm_tree(_dir)


def _long(vid):
    """the variant IDs of the haplotypes section: of the chrom:pos:ref:alt kind and exactly as long as the genotype classes hold (50)"""
    return (vid + ":" + "ACGT" * 13)[:50]


def mk_gt(cls):
    from haptools import data as D
    from haptools.transform import GenotypesAncestry

    log = SD.silent_log()
    if cls == "GenotypesPLINK":
        return D.GenotypesPLINK(_dir / "g.pgen", log=log)
    if cls == "GenotypesAncestry":
        return GenotypesAncestry(_dir / "a.vcf.gz", log=log)
    return getattr(D, cls)(_dir / "g.vcf.gz", log=log)


def enc_gt(g):
    """visible contents of a genotypes object: rows, cols, encoded data"""
    d = np.asarray(g.data)
    rows = [str(s) for s in g.samples]
    cols = [str(v) for v in g.variants["id"]]
    anc = getattr(g, "ancestry", None)
    out = []
    if d.ndim == 3 and d.shape[0] == len(rows) and d.shape[1] == len(cols):
        for i in range(d.shape[0]):
            r = []
            for j in range(d.shape[1]):
                code = int(d[i, j, 0]) * 1024 + int(d[i, j, 1]) * 4 + (int(d[i, j, 2]) if d.shape[2] > 2 else 1)
                if anc is not None and np.asarray(anc).shape[:2] == d.shape[:2]:
                    inv = {v: k for k, v in g.ancestry_labels.items()}
                    lab = [inv.get(int(x), "?") for x in np.asarray(anc)[i, j]]
                    code += (1 + "ABC?".index(lab[0])) * 2**20 + (1 + "ABC?".index(lab[1])) * 2**23
                elif anc is not None:
                    code += 7 * 2**26  # ancestry array out of step with the data
                r.append(code)
            out.append(r)
    else:
        out = [[] for _ in rows] if len(cols) == 0 else "shape-mismatch:" + str(d.shape)
    return {"rows": rows, "cols": cols, "data": out}


REGIONS = [None, "1", "1:15-35", "2", "1:20-20"]


def gen_hist_gt(rng, tier):
    """histories over the genotype classes; the first op is always a read"""
    n = 500 if tier == "quick" else 12000
    ids_s, ids_v = SAMPLES + ["zz"], [v[0] for v in VARS] + ["vz"]
    for t in range(n):
        cls = CLASSES[t % 4]
        ops = [{"k": "read", "region": None, "samples": None, "variants": None}]
        if t % 16 == 2 or t % 16 == 9:
            # a fixed share (PGEN and VCF objects): a load that matches nothing, look-ups built on the empty object, then the full
            # load – by-ID operations afterwards act on what is loaded now
            ops = [{"k": "read", "region": None, "samples": None, "variants": ["vz"]}, {"k": "index", "r": True, "c": True}, {"k": "read", "region": None, "samples": None, "variants": None},
                   {"k": "subset", "rs": rng.sample(SAMPLES, 2), "cs": rng.sample([v[0] for v in VARS], 2), "inplace": False}]
        elif t % 8 >= 6:
            # a fixed share: the object's first load is a restricted one (it has not seen everything the file holds – not every
            # ancestry label, for one), the full load comes later
            ops = [{"k": "read", "region": rng.choice(["1:5-25", "1"]), "samples": None, "variants": None}, {"k": "read", "region": None, "samples": None, "variants": None}]
        for _ in range(rng.randint(2, 7)):
            r = rng.random()
            if r < 0.2:
                ops.append({"k": "read", "region": rng.choice(REGIONS), "samples": rng.choice([None, None, sorted(rng.sample(SAMPLES, rng.randint(1, 3)))]), "variants": rng.choice([None, None, sorted(rng.sample(ids_v[:4], rng.randint(1, 3)))])})
            elif r < 0.3:
                ops.append({"k": "index", "r": rng.random() < 0.7, "c": rng.random() < 0.7})
            elif r < 0.8:
                rs = cs = None
                if rng.random() < 0.5:
                    rs = rng.sample(ids_s, rng.randint(1, 4))
                if rs is None or rng.random() < 0.6:
                    cs = rng.sample(ids_v, rng.randint(1, 5))
                ops.append({"k": "subset", "rs": rs, "cs": cs, "inplace": rng.random() < 0.45})
            elif r < 0.84:
                # merge with a second object that holds the same samples (in the same or in another order) and one further variant
                ops.append({"k": "merge_variants", "order": rng.choice(["same", "reversed", "rotated"])})
            elif r < 0.9:
                ops.append({"k": "check_missing"})
            elif r < 0.95:
                ops.append({"k": "check_biallelic"})
            else:
                ops.append({"k": "check_maf", "num": rng.choice([1, 2]), "den": rng.choice([3, 4])})
        yield {"cls": cls, "ops": ops}


def fresh_clone(g):
    c = g.__class__(g.fname, g.log)
    c.samples = tuple(g.samples)
    c.variants = g.variants.copy()
    c.data = np.array(g.data, copy=True)
    if hasattr(g, "ancestry"):
        c.ancestry = None if g.ancestry is None else np.array(g.ancestry, copy=True)
        c.ancestry_labels = dict(g.ancestry_labels)
        c.popnum_ancestry = dict(g.popnum_ancestry)
    return c


def _dosage_by_id(g, ids):
    """beta-weighted dosage (beta_j = j + 1) of the variants bearing `ids`, per sample, straight from the object's visible arrays"""
    d = np.asarray(g.data)
    cols = [str(v) for v in g.variants["id"]]
    out = []
    for i in range(d.shape[0]):
        # a variant the object no longer holds contributes nothing (its effect must not land on another column)
        out.append(float(sum((k + 1) * (int(d[i, cols.index(v), 0]) + int(d[i, cols.index(v), 1])) for k, v in enumerate(ids) if v in cols)))
    return out


def impl_hist_gt(case):
    from collections import namedtuple

    g = mk_gt(case["cls"])
    trace, mops = [], []
    kept = []  # copies returned by subset(): they stay alive and are looked at again when the history is over
    sim = sim_ids = sim_rows = None
    Effect = namedtuple("Effect", "id beta")
    stopped = False
    empty = False
    for o in case["ops"]:
        e = {}
        if empty and o["k"] not in ("read", "index"):
            # the object holds nothing (its last load matched nothing): only look-up building and further loads go on from here
            mops.append({"k": "index", "r": False, "c": False})
            trace.append({"state": trace[-1]["state"], "skipped": True})
            continue
        if o["k"] == "merge_variants":
            # by-ID outcome only (no model step): refused, or every cell of the merged object is the cell bearing that (sample, variant)
            d0 = np.asarray(g.data)
            if d0.ndim != 3 or d0.dtype == np.bool_ or 0 in d0.shape or case["cls"] == "GenotypesAncestry" or "extra" in [str(v) for v in g.variants["id"]]:
                mops.append({"k": "index", "r": False, "c": False})
                trace.append({"state": enc_gt(g)})
                continue
            rows = [str(x) for x in g.samples]
            order = rows if o["order"] == "same" else (rows[::-1] if o["order"] == "reversed" else rows[1:] + rows[:1])
            other = fresh_clone(g).subset(samples=tuple(order), variants=(str(g.variants["id"][0]),))
            other.variants = other.variants.copy()
            other.variants["id"][0] = "extra"
            other.variants["pos"][0] = 9999
            truth = {(s_, "extra"): [int(x) for x in np.asarray(other.data)[i, 0, :2]] for i, s_ in enumerate(order)}
            for i, s_ in enumerate(rows):
                for j, v_ in enumerate(g.variants["id"]):
                    truth[(s_, str(v_))] = [int(x) for x in d0[i, j, :2]]
            try:
                m = g.__class__.merge_variants((g, other), fname=g.fname, log=g.log)
                md = np.asarray(m.data)
                bad = [(str(s_), str(v_)) for i, s_ in enumerate(m.samples) for j, v_ in enumerate(m.variants["id"]) if [int(x) for x in md[i, j, :2]] != truth.get((str(s_), str(v_)))]
                e["merge"] = {"refused": False, "order": o["order"], "wrong_cells": bad[:4], "samples": [str(x) for x in m.samples], "variants": [str(x) for x in m.variants["id"]]}
            except Exception as ex:  # noqa
                if not C.deliberate_raise(ex):
                    raise
                e["merge"] = {"refused": True, "order": o["order"]}
            mops.append({"k": "index", "r": False, "c": False})
            e["state"] = enc_gt(g)
            trace.append(e)
            continue
        if o["k"] == "read":
            kw = dict(region=o["region"], samples=None if o["samples"] is None else set(o["samples"]), variants=None if o["variants"] is None else set(o["variants"]))
            f = mk_gt(case["cls"])
            f.read(**kw)
            view = enc_gt(f)
            g.read(**kw)
            mops.append({"k": "read", **view})
            if not view["cols"] or not view["rows"]:
                # an empty read leaves `samples` set but `data` with shape (0,0,0); histories stop here
                # (empty-object representation is outside this property; noted in DESIGN.md)
                e["state"] = enc_gt(g)
                e["state"]["data"] = [[] for _ in e["state"]["rows"]]
                trace.append(e)
                stopped = empty = True
                continue
            stopped = empty = False
            if sim is None:
                # phenotype simulation as a by-ID query: one simulator for the whole history, asked once now and once at the end
                from haptools.sim_phenotype import PhenoSimulator

                sim = PhenoSimulator(g, seed=7, log=SD.silent_log())
                sim_ids = view["cols"][: min(2, len(view["cols"]))]
                e["simulated_first"] = C.guarded(lambda: [float(x) for x in sim.run([Effect(v, float(k + 1)) for k, v in enumerate(sim_ids)], heritability=1, normalize=False)])
                e["simulated_first_want"] = _dosage_by_id(g, sim_ids)
                sim_rows = len(view["rows"])
        elif o["k"] == "index":
            g.index(samples=o["r"], variants=o["c"])
            mops.append(o)
        elif o["k"] == "subset":
            clone = fresh_clone(g)
            kw = dict(samples=None if o["rs"] is None else tuple(o["rs"]), variants=None if o["cs"] is None else tuple(o["cs"]))
            ref = clone.subset(**kw)
            e["fresh"] = enc_gt(ref)
            r = g.subset(inplace=o["inplace"], **kw)
            if not o["inplace"]:
                e["returned"] = enc_gt(r)
                kept.append((len(trace), r, C.jdump(e["returned"])))
            mops.append(o)
        elif o["k"] == "check_missing":
            d = np.asarray(g.data)
            thr = 255 if case["cls"] == "GenotypesAncestry" else 254
            idx = [i for i in range(d.shape[0]) if d.ndim == 3 and (d[i, :, :2] >= thr).any()]
            g.check_missing(discard_also=True)
            mops.append({"k": "dropRows", "idx": idx})
        elif o["k"] == "check_biallelic":
            d = np.asarray(g.data)
            if d.ndim != 3 or d.dtype == np.bool_ or 0 in d.shape:
                trace.append({"state": enc_gt(g)})
                mops.append({"k": "index", "r": False, "c": False})
                continue
            multi = [j for j in range(d.shape[1]) if (d[:, j, :2] > 1).any()]
            before = [str(v) for v in g.variants["id"]]
            g.check_biallelic(discard_also=True)
            e["biallelic_kept"] = [[str(v) for v in g.variants["id"]], [v for j, v in enumerate(before) if j not in multi]]
            # the values are re-coded to booleans by this step: the model is handed the object's new contents as a
            # fresh view (its own caches start empty, as a correct implementation's would after the columns moved)
            mops.append({"k": "read", **enc_gt(g)})
        elif o["k"] == "check_maf":
            d = np.asarray(g.data)
            idx = []
            if d.ndim == 3 and d.shape[0]:
                for j in range(d.shape[1]):
                    k = int((d[:, j, :2] != 0).sum())
                    n2 = 2 * d.shape[0]
                    if min(k, n2 - k) * o["den"] < o["num"] * n2:
                        idx.append(j)
            g.check_maf(threshold=o["num"] / o["den"], discard_also=True)
            mops.append({"k": "dropCols", "idx": idx})
        e["state"] = enc_gt(g)
        trace.append(e)
    if sim is not None and not stopped and trace:
        d = np.asarray(g.data)
        cols = [str(v) for v in g.variants["id"]]
        e = trace[-1]
        e["simulated_last"] = C.guarded(lambda: [float(x) for x in sim.run([Effect(v, float(k + 1)) for k, v in enumerate(sim_ids)], heritability=1, normalize=False)])
        e["simulated_last_want"] = _dosage_by_id(g, sim_ids) if d.ndim == 3 and d.shape[0] else None
        e["simulated_ids"] = sim_ids
        # the simulator archives every vector it returns next to the earlier ones: once the number of samples has changed it can only refuse
        e["simulated_rows_changed"] = d.ndim != 3 or d.shape[0] != sim_rows
    if trace:
        # a returned copy holds its own contents: whatever was done to the original afterwards (read again, subset, QC) is not its business
        changed = [k for k, r, then in kept if C.jdump(C.guarded(enc_gt, r)) != then]
        if changed:
            trace[-1]["copies_changed_later"] = changed
    _mops[C.jdump(case)] = mops
    return {"trace": trace}


_mops = {}


def model_req(case):
    return {"op": "objRun", "ops": _mops.get(C.jdump(case), [])}


def equal_hist(a, b):
    a, b = C.canon(C.strip_msg(a)), C.canon(C.strip_msg(b))
    if "error" in a or "error" in b:
        return a == b
    if len(a["trace"]) != len(b["trace"]):
        return False
    for x, y in zip(a["trace"], b["trace"]):
        if x["state"] != y["state"]:
            return False
        if x.get("returned") != y.get("returned"):
            return False
    return True


def _copies_clause(obs):
    for e in obs.get("trace", []) if isinstance(obs, dict) else []:
        if e.get("copies_changed_later"):
            return f"the copies returned by subset() at steps {e['copies_changed_later']} read differently (contents or ancestry labels) after the original was used further"
    return None


def oracle_hist(case, obs):
    """fresh-object oracle: every by-ID query must return what a fresh object built from the same visible
    contents returns; IDs must come back in the requested order, absent IDs dropped, rows bear their IDs"""
    if "error" in obs:
        return f"history raised {obs}"
    if _copies_clause(obs):
        return _copies_clause(obs)
    for k, (o, e) in enumerate(zip(case["ops"], obs["trace"])):
        if e.get("skipped"):
            continue
        if "merge" in e:
            m = e["merge"]
            if m["refused"] and m["order"] == "same":
                return f"op {k}: merging with an object that holds the same samples in the same order was refused"
            if not m["refused"] and m["wrong_cells"]:
                return f"op {k}: merged with an object holding the same samples in {m['order']} order: the cells {m['wrong_cells']} of the result are not the genotypes those samples have at those variants (rows joined by position, not by ID)"
        for tag in ("first", "last"):
            if f"simulated_{tag}" in e:
                got, want = e[f"simulated_{tag}"], e.get(f"simulated_{tag}_want")
                ids_ = e.get("simulated_ids")
                if isinstance(got, dict) and "error" in got and (want is None or e.get("simulated_rows_changed")):
                    continue  # a refusal, where the simulator cannot answer
                if want is None:
                    return f"op {k}: phenotype simulation for {ids_} answered {got} although the object holds no sample"
                if isinstance(got, dict) or len(got) != len(want) or any(abs(a - b) > 1e-9 for a, b in zip(got, want)):
                    return f"op {k}: phenotype simulation ({tag} call of one simulator, noise-free, raw dosages, betas 1, 2) gave {got}; the object's current rows and columns bearing these IDs give {want}"
        if "biallelic_kept" in e and e["biallelic_kept"][0] != e["biallelic_kept"][1]:
            return f"op {k}: check_biallelic(discard_also=True) left variants {e['biallelic_kept'][0]}, the variants without an allele index above 1 are {e['biallelic_kept'][1]}"
        if o["k"] != "subset":
            continue
        got = e["state"] if o["inplace"] else e["returned"]
        if got != e["fresh"]:
            return f"op {k} {o}: by-ID subset returned {got}, a fresh object with the same contents returns {e['fresh']}"
    return None


def variants_hist(case):
    ops = case["ops"]
    for i in range(1, len(ops)):
        yield {**case, "ops": ops[:i] + ops[i + 1 :]}


# ------------------------------------------------------------------ phenotypes
def mk_ph(cov=False):
    from haptools import data as D

    return (D.Covariates if cov else D.Phenotypes)(_dir / "p.pheno", log=SD.silent_log())


def enc_ph(p):
    d = np.asarray(p.data)
    rows, cols = [str(s) for s in p.samples], [str(n) for n in p.names]
    if d.ndim == 2 and d.shape == (len(rows), len(cols)):
        data = [[int(round(float(x))) + 100 for x in r] for r in d]
    elif len(rows) == 0 or len(cols) == 0:
        data = [[] for _ in rows]
    else:
        data = "shape-mismatch:" + str(d.shape)
    return {"rows": rows, "cols": cols, "data": data}


def gen_hist_ph(rng, tier):
    n = 700 if tier == "quick" else 12000
    ids_s, ids_n = ["s0", "s1", "s2", "s3", "zz"], ["p0", "p1", "p2", "q0", "q1", "nz"]
    for t in range(n):
        ops = [{"k": "read", "samples": None}]
        if rng.random() < 0.6:
            ops.append({"k": "index", "r": rng.random() < 0.8, "c": rng.random() < 0.8, "obj": 0})
        fresh = ["q0", "q1"]
        nobj = 1
        for _ in range(rng.randint(2, 7)):
            r = rng.random()
            tgt = rng.randrange(nobj)
            if r < 0.08:
                ops.append({"k": "read", "samples": rng.choice([None, sorted(rng.sample(ids_s[:4], rng.randint(1, 3)))]), "obj": tgt})
            elif r < 0.18:
                ops.append({"k": "index", "r": rng.random() < 0.7, "c": rng.random() < 0.7, "obj": tgt})
            elif r < 0.6:
                rs = cs = None
                if rng.random() < 0.6:
                    rs = rng.sample(ids_s, rng.randint(1, 4))
                if rs is None or rng.random() < 0.4:
                    cs = rng.sample(ids_n, rng.randint(1, 4))
                inplace = rng.random() < 0.35
                ops.append({"k": "subset", "rs": rs, "cs": cs, "inplace": inplace, "obj": tgt})
                if not inplace and nobj < 3:
                    ops[-1]["keep"] = True
                    nobj += 1
            elif r < 0.9 and fresh:
                ops.append({"k": "append", "name": fresh.pop(0), "obj": tgt})
            else:
                ops.append({"k": "check_missing", "obj": tgt})
        # closing by-ID queries on every live object, over all names ever used (present or not)
        for tgt in range(nobj):
            ops.append({"k": "subset", "rs": None, "cs": rng.sample(ids_n, len(ids_n)), "inplace": False, "obj": tgt})
            ops.append({"k": "subset", "rs": rng.sample(ids_s, len(ids_s)), "cs": None, "inplace": False, "obj": tgt})
        yield {"cov": t % 5 == 4, "ops": ops}


def impl_hist_ph(case):
    """several live objects: copies returned by subset(keep=True) stay alive and receive later operations
    (two cooperating sites: a copy must not share look-up state with its parent)"""
    from haptools import data as D

    objs = [mk_ph(case["cov"])]
    trace = []
    mops = [[]]  # per live object: the model history that produced it
    for o in case["ops"]:
        t = o.get("obj", 0)
        p = objs[t]
        e = {"obj": t}
        if o["k"] == "read":
            f = mk_ph(case["cov"])
            kw = dict(samples=None if o["samples"] is None else set(o["samples"]))
            f.read(**kw)
            p.read(**kw)
            mops[t].append({"k": "read", **enc_ph(f)})
        elif o["k"] == "index":
            p.index(samples=o["r"], names=o["c"])
            mops[t].append({"k": "index", "r": o["r"], "c": o["c"]})
        elif o["k"] == "subset":
            clone = p.__class__(p.fname, p.log)
            clone.samples, clone.names, clone.data = tuple(p.samples), tuple(p.names), np.array(p.data, copy=True)
            kw = dict(samples=None if o["rs"] is None else tuple(o["rs"]), names=None if o["cs"] is None else tuple(o["cs"]))
            e["fresh"] = enc_ph(clone.subset(**kw))
            r = p.subset(inplace=o["inplace"], **kw)
            mop = {"k": "subset", "rs": o["rs"], "cs": o["cs"], "inplace": o["inplace"]}
            if not o["inplace"]:
                e["returned"] = enc_ph(r)
                if o.get("keep"):
                    objs.append(r)
                    # the copy's own history: it is born from the returned contents with empty caches
                    mops.append([{"k": "read", **enc_ph(r)}])
            mops[t].append(mop)
        elif o["k"] == "append":
            col = np.arange(len(p.samples), dtype=np.float64) + 50
            p.append(o["name"], col)
            mops[t].append({"k": "append", "name": o["name"], "col": [int(x) + 100 for x in col]})
        elif o["k"] == "check_missing":
            d = np.asarray(p.data)
            idx = [i for i in range(d.shape[0]) if d.ndim == 2 and (d[i] == -9).any()]
            p.check_missing(discard_also=True)
            mops[t].append({"k": "dropRows", "idx": idx})
        e["state"] = enc_ph(p)
        e["mlen"] = len(mops[t])
        trace.append(e)
    _mops[C.jdump(case)] = mops
    return {"trace": trace}


def model_req_ph(case):
    return {"op": "batch", "reqs": [{"op": "objRun", "ops": m} for m in _mops.get(C.jdump(case), [])]}


def model_obs_ph(case, resp):
    """replay: entry k of the implementation trace belongs to object `obj` and is its `mlen`-th model step"""
    mtr = [r["trace"] for r in resp["resps"]]
    out = []
    impl = _impl_cache.get(C.jdump(case))
    for e in impl["trace"]:
        m = mtr[e["obj"]][e["mlen"] - 1]
        x = {"obj": e["obj"], "state": m["state"]}
        if "returned" in m:
            x["returned"] = m["returned"]
        out.append(x)
    return {"trace": out}


_impl_cache = {}


def impl_hist_ph_wrap(case):
    r = impl_hist_ph(case)
    _impl_cache[C.jdump(case)] = r
    return r


def oracle_hist_ph(case, obs):
    if "error" in obs:
        return f"history raised {obs}"
    for k, (o, e) in enumerate(zip(case["ops"], obs["trace"])):
        if o["k"] != "subset":
            continue
        got = e["state"] if o["inplace"] else e["returned"]
        if got != e["fresh"]:
            return f"op {k} {o}: by-ID subset returned {got}, a fresh object with the same contents returns {e['fresh']}"
    return None


# ------------------------------------------------------------------ haplotypes (oracle only)
def gen_hist_hp(rng, tier):
    n = 200 if tier == "quick" else 5000
    ids = ["H1", "H2", "H3", "R1", "HZ"]
    for t in range(n):
        ops = [{"k": "read", "ids": None}]
        for _ in range(rng.randint(1, 6)):
            r = rng.random()
            if r < 0.2:
                ops.append({"k": "read", "ids": rng.choice([None, sorted(rng.sample(ids[:4], rng.randint(1, 3)))])})
            elif r < 0.6:
                req = rng.sample(ids, rng.randint(1, 4))
                if rng.random() < 0.2:
                    req.append(req[0])  # a repeated ID
                ops.append({"k": "subset", "ids": req, "inplace": rng.random() < 0.5})
            elif r < 0.72:
                ops.append({"k": "sort"})
            elif r < 0.78:
                ops.append({"k": "index", "force": rng.random() < 0.5})
            elif r < 0.9:
                ops.append({"k": "query"})
            else:
                ops.append({"k": "merge"})
        ops.append({"k": "query"})
        yield {"ops": ops}


def _hp_contents(h):
    return {"ids": list(h.data.keys()), "lines": list(h.to_str())}


def _hp_query(h, gts):
    """by-ID operations: to_str (uses type_ids), transform (haplotype IDs -> columns)"""
    from haptools import data as D

    out = {"to_str": list(h.to_str())}
    from haptools.data import Haplotype as _H

    per = {}
    for hid, rec in h.data.items():
        if isinstance(rec, _H):
            try:
                per[hid] = np.asarray(rec.transform(gts)).astype(int).tolist()
            except Exception as e:  # noqa
                per[hid] = type(e).__name__
    out["per_haplotype_transform"] = per
    try:
        hg = h.transform(gts, D.GenotypesVCF(fname=None, log=SD.silent_log()))
        out["transform_ids"] = [str(x) for x in hg.variants["id"]]
        out["transform"] = np.asarray(hg.data).astype(int).tolist()
    except Exception as e:  # noqa
        out["transform_error"] = type(e).__name__
    # a haplotype naming a variant the genotypes do not hold (the ID of one they hold plus one more letter): the genotypes cannot
    # answer for it, whatever part of the ID another variant shares – a refusal or an omission, never the other variant's column
    first = next((rec for rec in h.data.values() if isinstance(rec, _H) and rec.variants), None)
    if first is not None:
        f = _dir / "probe.hap"
        with open(f, "w") as o:
            o.write(f"H\t{first.chrom}\t{first.start}\t{first.end}\tPROBE\n")
            for k, v in enumerate(first.variants):
                o.write(f"V\tPROBE\t{v.start}\t{v.end}\t{v.id + ('T' if k == 0 else '')}\t{v.allele}\n")
        probe = D.Haplotypes(f, log=SD.silent_log())
        probe.read()
        try:
            pg = probe.transform(gts, D.GenotypesVCF(fname=None, log=SD.silent_log()))
            out["absent_probe"] = "answered" if len(pg.variants) else "omitted"
        except Exception as e:  # noqa
            out["absent_probe"] = "refused" if C.deliberate_raise(e) else type(e).__name__
    return out


def _fresh_from_text(h):
    """a brand-new object holding the same records in the same order: written out and read back, so that it shares no
    record objects (and none of their cached attributes) with the object under test"""
    from haptools import data as D

    f = _dir / "fresh.hap"
    lines = []
    for rec in h.data.values():
        lines.append(h.types["H" if isinstance(rec, D.Haplotype) else "R"].to_hap_spec(rec))
    for hid, rec in h.data.items():
        for v in getattr(rec, "variants", ()):
            lines.append(h.types["V"].to_hap_spec(v, hid))
    fresh = D.Haplotypes(f, log=SD.silent_log())
    if not lines:
        fresh.data = {}
        fresh.index(force=True)
        return fresh
    open(f, "w").write("\n".join(lines) + "\n")
    fresh.read()
    return fresh


def impl_hist_hp(case):
    from haptools import data as D

    log = SD.silent_log()
    gts = D.GenotypesVCF(_dir / "gb.vcf.gz", log=log)
    gts.read()
    gts.check_missing(discard_also=True)
    gts.check_biallelic()
    gts.check_phase()
    h = D.Haplotypes(_dir / "h.hap", log=log)
    trace = []
    for o in case["ops"]:
        e = {}
        if o["k"] == "read":
            h.read(haplotypes=None if o["ids"] is None else set(o["ids"]))
        elif o["k"] == "subset":
            r = h.subset(tuple(o["ids"]), inplace=o["inplace"])
            want = [i for i in o["ids"] if i in (e.get("before") or [])]
            if not o["inplace"]:
                e["returned_ids"] = list(r.data.keys())
                e["returned_query"] = _hp_query(r, gts)
                e["returned_fresh"] = _hp_query(_fresh_from_text(r), gts)
        elif o["k"] == "sort":
            h.sort()
        elif o["k"] == "index":
            h.index(force=o["force"])
        elif o["k"] == "merge":
            other = D.Haplotypes(_dir / "h.hap", log=log)
            other.data = {}
            try:
                h = D.Haplotypes.merge((h, other), fname=h.fname, log=log)
            except ValueError:
                e["merge_error"] = True
        elif o["k"] == "query":
            e["query"] = _hp_query(h, gts)
            e["fresh"] = _hp_query(_fresh_from_text(h), gts)
        e["ids"] = list(h.data.keys())
        trace.append(e)
    return {"trace": trace}


HP_FILE = [["H1", True, 0], ["H2", True, 1], ["R1", False, 3], ["H3", True, 2]]  # file order; key = rank under sort()


def model_req_hp(case):
    return {"op": "hapObjRun", "file": HP_FILE, "ops": case["ops"]}


def _hp_obs(trace):
    """what is compared with the Lean machine: the IDs held after every operation, the IDs and the query IDs of a
    returned copy, the haplotype IDs a query works with (the columns of transform)"""
    out = []
    for e in trace:
        q = e.get("query", {}).get("transform_ids") if "query" in e else None
        r = None
        if "returned_ids" in e:
            r = [e["returned_ids"], e["returned_query"].get("transform_ids")]
        out.append({"ids": e["ids"], "returned": r, "query": q})
    return out


def model_obs_hp(case, resp):
    return {"trace": resp["trace"]}


def equal_hp(a, b):
    if "error" in a:
        return False
    A = _hp_obs(a["trace"])
    for x, y in zip(A, b["trace"]):
        if x["ids"] != y["ids"]:
            return False
        for k in ("returned", "query"):
            if (x[k] is None) != (y[k] is None):
                return False
        if x["returned"] is not None:
            if x["returned"][0] != y["returned"][0]:
                return False
            # transform refuses an empty haplotype list / may fail: then there is no column list to compare
            if x["returned"][1] is not None and x["returned"][1] != y["returned"][1]:
                return False
        if x["query"] is not None and x["query"] != y["query"]:
            return False
    return len(A) == len(b["trace"])


def oracle_hist_hp(case, obs):
    if "error" in obs:
        return f"history raised {obs}"
    for k, (o, e) in enumerate(zip(case["ops"], obs["trace"])):
        if o["k"] == "query" and e["query"].get("absent_probe") == "answered":
            return f"op {k}: a haplotype naming a variant ID the genotypes do not hold (a held ID plus one letter) was transformed: the ID was resolved to another variant's column"
        if o["k"] == "query" and e["query"] != e["fresh"]:
            return f"op {k}: by-ID operations on the object ({e['query']}) differ from a fresh object with the same records ({e['fresh']})"
        if o["k"] == "subset" and not o["inplace"] and e["returned_query"] != e["returned_fresh"]:
            return f"op {k} {o}: the returned copy answers {e['returned_query']}, a fresh object with its records answers {e['returned_fresh']}"
        if o["k"] == "subset" and o["inplace"]:
            if any(i not in o["ids"] for i in e["ids"]) or e["ids"] != [i for i in dict.fromkeys(o["ids"]) if i in e["ids"]]:
                return f"op {k} {o}: object now holds {e['ids']}"
    return None


CHECK = Check(
    id="C12",
    title="By-ID operations always act on the object's current contents",
    theorems=[
        "C12.index_sound_complete",
        "C12.cache_inv_step",
        "C12.cache_inv",
        "C12.copy_starts_clean",
        "C12.byid_refines_spec",
        "C12.positions_current",
        "C12.haplotypes_query_current",
        "C12.haplotypes_subset_sound",
        "C12.reread_refuted_before_fix",
    ],
    sections=[
        Section(
            name="genotypes_histories",
            theorems=["C12.cache_inv", "C12.byid_refines_spec", "C12.positions_current"],
            gen=gen_hist_gt,
            impl=impl_hist_gt,
            model_req=model_req,
            model_obs=lambda c, r: r,
            equal=equal_hist,
            oracle=oracle_hist,
            variants=variants_hist,
            setup=setup,
            teardown=teardown,
            describe=lambda c, o: [c["cls"], f"len={len(c['ops'])}"],
            nontrivial=lambda c, o: C.jdump(c) if sum(1 for x in c["ops"] if x["k"] == "subset") >= 2 else None,
            rule="seeded random histories (3-8 operations: read all/region/samples/variants, index, subset in place or copying with unknown IDs and permutations, check_missing, check_biallelic and check_maf with discard; the genotype file holds a tri-allelic variant and a missing call) on real Genotypes, GenotypesVCF, GenotypesPLINK and GenotypesAncestry objects backed by real indexed VCF / PGEN files; after every operation the visible contents (and every returned copy) are compared with the Lean machine fed the same file views; non-trivial = at least two by-ID subsets in the history",
        ),
        Section(
            name="phenotypes_histories",
            theorems=["C12.cache_inv", "C12.copy_starts_clean", "C12.byid_refines_spec"],
            gen=gen_hist_ph,
            impl=impl_hist_ph_wrap,
            model_req=model_req_ph,
            model_obs=model_obs_ph,
            equal=equal_hist,
            oracle=oracle_hist_ph,
            setup=setup,
            teardown=teardown,
            describe=lambda c, o: ["Covariates" if c["cov"] else "Phenotypes", f"objects={1+sum(1 for x in c['ops'] if x.get('keep'))}"],
            nontrivial=lambda c, o: C.jdump(c) if sum(1 for x in c["ops"] if x["k"] in ("subset", "append")) >= 2 else None,
            rule="seeded random histories on Phenotypes / Covariates objects backed by a real file: read (all / sample subset), index, subset (in place / copying; up to two returned copies stay alive and receive later operations), append, check_missing(discard); every live object has its own Lean machine history; non-trivial = at least two subset/append operations",
        ),
        Section(
            name="haplotypes_histories",
            theorems=["C12.haplotypes_query_current", "C12.haplotypes_subset_sound"],
            gen=gen_hist_hp,
            impl=impl_hist_hp,
            model_req=model_req_hp,
            model_obs=model_obs_hp,
            equal=equal_hp,
            oracle=oracle_hist_hp,
            setup=setup,
            teardown=teardown,
            nontrivial=lambda c, o: C.jdump(c) if len(c["ops"]) > 3 else None,
            rule="seeded random histories on a Haplotypes object (read all / by IDs, subset in place / copying, sort, merge) with to_str() and transform() as by-ID queries, compared with the Lean object machine HapObj (IDs held after every operation, IDs and query columns of returned copies, the haplotype columns transform works with) and with a fresh object holding the same records",
        ),
    ],
    trusted=["Python dict semantics of the caches (insertion order, last-wins zip)", "fresh reads give the file view handed to the model's `read` (C08 covers the readers)", "numpy fancy indexing picks the listed rows/columns"],
    assumptions=["ID lists handed to subset() are duplicate-free and files have unique IDs (index() raises on duplicates)", "appended names are fresh"],
    anchors=[("haptools/data/genotypes.py", ["Genotypes.index", "Genotypes.subset", "Genotypes.read", "Genotypes.check_missing", "Genotypes.check_maf", "GenotypesPLINK.read"]), ("haptools/data/phenotypes.py", ["Phenotypes.index", "Phenotypes.subset", "Phenotypes.read", "Phenotypes.append", "Phenotypes.check_missing"]), ("haptools/transform.py", ["GenotypesAncestry.subset", "GenotypesAncestry.read"]), ("haptools/data/haplotypes.py", ["Haplotypes.index", "Haplotypes.subset", "Haplotypes.read", "Haplotypes.sort", "Haplotypes.merge"])],
)
