"""C18 — the karyogram draws exactly the sample's blocks from the breakpoints file."""
from __future__ import annotations

import os

from . import common as C
from .run import Check, Section

NAMES = ["S", "S_B", "A_B", "x_1", "S_1", "T", "HG001", "HG001_B", "T+N", "K(2)", "NA07.1", "NA07_1", "a|b", "x*"]  # prefix-related names and names holding regular-expression metacharacters
POPS = ["YRI", "CEU", "AMR"]
POPS_SUFFIXED = ["pop_1", "pop_2", "AFR_1"]  # labels that look like the end of a strand header (msprime-style population names)
POPS_LONG = ["African_W", "African_E", "NativeAmerican"]  # free text of any length; two of them share their first seven characters
PALETTE = {"YRI": "red", "CEU": "blue", "AMR": "green", "pop_1": "orange", "pop_2": "purple", "AFR_1": "cyan", "African_W": "magenta", "African_E": "gold", "NativeAmerican": "teal"}
_dir = None


def setup():
    global _dir
    _dir = C.scratch_dir("c18")
    return _dir


def teardown(_):
    C.rm_tree(_dir)


def chrom_tok(c, prefix):
    base = "X" if c == 23 else str(c)
    return ("chr" + base) if prefix else base


def gen(rng, tier):
    n = 400 if tier == "quick" else 6000
    for i in range(n):
        k = rng.randint(1, 4)
        samples = rng.sample(NAMES, k)
        target = rng.choice(samples + [rng.choice(NAMES)]) if rng.random() < 0.9 else "ZZ"
        chroms = sorted(rng.sample([1, 2, 7, 10, 23], rng.randint(1, 3)))
        if i % 4 == 3 and len(chroms) > 1:
            # any other order of the chromosomes (by name: 1, 10, 2, X; descending; as given to --chroms): a chromosome's blocks stay
            # together, which is all the format promises
            o = list(chroms)
            while o == chroms:
                rng.shuffle(o)
            chroms = o
        lines = []
        pops = POPS_SUFFIXED if i % 5 == 2 else (POPS_LONG if i % 5 == 4 else POPS)
        last_cm = {}  # chromosome -> the cM ends of the last block of every strand
        for s in samples:
            twin = rng.random() < 0.12  # an unadmixed founder: both strands identical, block for block
            prev = None
            for strand in (1, 2):
                lines.append({"t": [f"{s}_{strand}"], "cm": 0})
                body = []
                for c in chroms:
                    nb = rng.randint(1, 3)
                    cms = sorted(rng.sample(range(1, 500), nb))
                    for cm in cms:
                        # cM with at most 1 decimal: exactly representable after *1e4 rounding
                        body.append({"t": [rng.choice(pops), chrom_tok(c, rng.random() < 0.3), str(cm * 7), f"{cm/10:.1f}"], "cm": cm * 1000})
                if twin and prev is not None:
                    body = [dict(b, t=list(b["t"])) for b in prev]
                prev = body
                lines += body
                for b in body:
                    last_cm.setdefault(b["t"][1].replace("chr", ""), {})[f"{s}_{strand}"] = b["cm"]
        ends = None
        if rng.random() < 0.55:
            ends = [[chrom_tok(c, False), rng.randint(600, 900) * 1000] for c in chroms]
            if rng.random() < 0.4:
                # a table derived from the same genetic map as the simulation: the listed end of a chromosome is exactly
                # where the last block of the longest strand ends
                for e in ends:
                    if rng.random() < 0.7 and last_cm.get(e[0]):
                        e[1] = max(last_cm[e[0]].values())  # no block of any strand lies beyond the listed end
            if rng.random() < 0.15:
                ends.append([chrom_tok(9, False), 123000])  # chromosome not drawn
            if rng.random() < 0.1 and len(ends) > 1:
                ends.pop(rng.randrange(len(ends)))  # a drawn chromosome missing from the table (KeyError)
        yield {"name": target, "lines": lines, "ends": ends}


def write_files(case):
    bp = _dir / "k.bp"
    with open(bp, "w") as f:
        for l in case["lines"]:
            f.write("\t".join(l["t"]) + "\n")
    cen = None
    if case["ends"] is not None:
        cen = _dir / "cen.txt"
        with open(cen, "w") as f:
            for c, v in case["ends"]:
                # columns: chrom, start-of-centromere, end-of-centromere, chromosome end (last column is used)
                f.write(f"{c}\t0\t{v/20000:.4f}\t{v/10000:.4f}\n")
    C.end_file(case, "k.bp", bp)
    if cen:
        C.end_file(case, "cen.txt", cen)
    return str(bp), (str(cen) if cen else None)


def impl(case):
    from haptools.karyogram import GetHaplotypeBlocks

    bp, cen = write_files(case)
    r = GetHaplotypeBlocks(bp, case["name"], cen)
    return {"strands": [[[b["pop"], int(b["chrom"]), round(b["start"] * 10000), round(b["end"] * 10000)] for b in s] for s in r]}


def _chrom(tok):
    t = tok[3:] if tok.startswith("chr") else tok
    return 23 if t == "X" else int(t)


def oracle(case, obs):
    """the property statement evaluated directly on the file text (independent of the Lean model)"""
    # strands of the named sample, in file order
    strands = []
    cur = None
    for l in case["lines"]:
        t = l["t"]
        if len(t) == 1:
            cur = None
            if t[0] in (case["name"] + "_1", case["name"] + "_2"):
                cur = []
                strands.append(cur)
        elif cur is not None:
            cur.append((t[0], _chrom(t[1]), l["cm"]))
    strands = strands[:2]
    ends = None
    if case["ends"] is not None:
        ends = {}
        for c, v in case["ends"]:
            ends[_chrom(c)] = v
    if "error" in obs:
        if ends is not None and any(c not in ends for s in strands for (_, c, _) in s):
            return None  # a chromosome missing from the ends file: rejecting is acceptable
        return f"raised {obs} on a well-formed file"
    got = obs["strands"]
    if len(got) != len(strands):
        return f"{len(got)} strands drawn for sample {case['name']!r}, the file holds {len(strands)}"
    for si, (g, s) in enumerate(zip(got, strands)):
        if len(g) != len(s):
            return f"strand {si+1}: {len(g)} blocks drawn, file has {len(s)}"
        for i, (b, (pop, c, cm)) in enumerate(zip(g, s)):
            last_of_chrom = i == len(s) - 1 or s[i + 1][1] != c
            want_end = ends[c] if (ends is not None and last_of_chrom) else cm
            first_of_chrom = i == 0 or s[i - 1][1] != c
            want_start = 1 if first_of_chrom else g[i - 1][3] + 1
            if b[0] != pop or b[1] != c:
                return f"strand {si+1} block {i}: drawn as {b[:2]}, file says {(pop, c)}"
            if b[3] != want_end:
                return f"strand {si+1} block {i} (chrom {c}, last-of-chrom={last_of_chrom}): end {b[3]/1e4} cM, expected {want_end/1e4}"
            if b[2] != want_start:
                return f"strand {si+1} block {i}: start {b[2]/1e4}, expected {want_start/1e4} (contiguity)"
    return None


def describe(case, obs):
    names = [l["t"][0].rsplit("_", 1)[0] for l in case["lines"] if len(l["t"]) == 1][::2]
    pos = "absent"
    if case["name"] in names:
        i = names.index(case["name"])
        pos = "first" if i == 0 else ("last" if i == len(names) - 1 else "middle")
        if len(names) == 1:
            pos = "only"
    return [f"sample-{pos}", "ends-file" if case["ends"] is not None else "no-ends-file", "underscore-name" if "_" in case["name"] else "plain-name"]


def variants(case):
    # drop one whole sample (two strands) at a time; drop the ends table
    heads = [i for i, l in enumerate(case["lines"]) if len(l["t"]) == 1]
    bounds = heads + [len(case["lines"])]
    for k in range(0, len(heads), 2):
        a, b = bounds[k], bounds[min(k + 2, len(bounds) - 1)]
        yield {**case, "lines": case["lines"][:a] + case["lines"][b:]}
    if case["ends"] is not None:
        yield {**case, "ends": None}


# ------------------------------------------------------------------ plotting section (oracle only)
def gen_plot(rng, tier):
    n = 24 if tier == "quick" else 300
    for c in gen(rng, "thorough"):
        if n == 0:
            return
        if c["ends"] is not None and len(c["ends"]) < len({l["t"][1] for l in c["lines"] if len(l["t"]) > 1}):
            continue
        present = sorted({l["t"][0].rsplit("_", 1)[0] for l in c["lines"] if len(l["t"]) == 1})
        r = rng.random()
        if r < 0.3:
            # an absent sample whose name is a present sample's name plus a strand suffix (the ID of one of its strands)
            cand = [p + sfx for p in present for sfx in ("_1", "_2") if p + sfx not in present]
            if cand:
                c["name"] = rng.choice(cand)
        elif r < 0.7:
            # very short blocks (0.005 cM, one base pair): legal, and drawn like any other
            body = [i for i, l in enumerate(c["lines"]) if len(l["t"]) > 1]
            for i in sorted(rng.sample(body, min(len(body), rng.randint(1, 3))), reverse=True):
                l = c["lines"][i]
                pop = rng.choice([p for p in (POPS_SUFFIXED if l["t"][0] in POPS_SUFFIXED else (POPS_LONG if l["t"][0] in POPS_LONG else POPS)) if p != l["t"][0]])
                cm = l["cm"] + 50
                c["lines"].insert(i + 1, {"t": [pop, l["t"][1], str(int(l["t"][2]) + 1), f"{cm/10000:.4f}"], "cm": cm})
            for e in c["ends"] or []:
                # as in gen: no block of any strand lies beyond the listed end of its chromosome
                e[1] = max([e[1]] + [l["cm"] for l in c["lines"] if len(l["t"]) > 1 and l["t"][1].replace("chr", "") == e[0]])
        n -= 1
        yield c


def impl_plot(case):
    """PlotKaryogram: an absent sample must exit with an error; a present one must draw one rectangle per block."""
    import matplotlib

    matplotlib.use("Agg")
    import matplotlib.pyplot as plt
    from haptools import karyogram as K
    from haptools.logging import getLogger

    bp, cen = write_files(case)
    added = []
    orig = K.PlotHaplotypeBlock

    def rec(*a, **k):
        # what is recorded is the artist that actually lands on the axes: its x-extent and its colour
        import matplotlib.colors as mc

        with C.glue("recording PlotHaplotypeBlock (entry)"):
            A = C.bind_args(orig, a, k)
            block, hapnum, colors, ax = C.need(A, "block", "hapnum", "colors", "ax")
            n0, p0 = len(ax.collections), len(ax.patches)
        r = orig(*a, **k)
        with C.glue("recording PlotHaplotypeBlock (exit)"):
            # the block may land on the axes as a one-path collection or as a patch
            shapes = [(col.get_paths()[0], col.get_facecolor()[0]) for col in ax.collections[n0:]] + [(pt.get_path(), pt.get_facecolor()) for pt in ax.patches[p0:]]
            for path, face in shapes:
                xs = [v[0] for v in path.vertices[:4]]
                fc = tuple(round(float(x), 6) for x in face)
                pops = [p for p, cname in colors.items() if tuple(round(float(x), 6) for x in mc.to_rgba(cname)) == fc]
                added.append([pops[0] if len(pops) == 1 else f"colour:{fc}", int(block["chrom"]), round(min(xs) * 10000), round(max(xs) * 10000), hapnum])
        return r

    K.PlotHaplotypeBlock = rec
    import contextlib, io

    import matplotlib.colors as mc
    from matplotlib.figure import Figure

    COLORS = dict(PALETTE)
    figs = []
    orig_save = Figure.savefig

    def save(self, *a, **k):  # the public end of every plot: the finished figure, however its artists were put there
        figs.append(self)
        return orig_save(self, *a, **k)

    Figure.savefig = save
    bands = None
    try:
        others = sorted({l["t"][0].rsplit("_", 1)[0] for l in case["lines"] if len(l["t"]) == 1} - {case["name"]})
        if others and C.plumb(case, "prior-plot", 2) == 0:
            # the figure of another sample of the same file was drawn just before, in the same process, and is still open
            try:
                with contextlib.redirect_stderr(io.StringIO()):
                    K.PlotKaryogram(bp, others[0], str(_dir / "prior.png"), centromeres_file=cen, title=None, colors=COLORS, log=getLogger("k", "CRITICAL"))
            except (SystemExit, Exception):  # noqa: that call's outcome is another case's business
                pass
            added.clear()
            figs.clear()
        try:
            with contextlib.redirect_stderr(io.StringIO()):
                K.PlotKaryogram(bp, case["name"], str(_dir / "out.png"), centromeres_file=cen, title=None, colors=COLORS, log=getLogger("k", "CRITICAL"))
            status = "ok"
        except SystemExit as e:
            status = f"exit:{e.code}"
        figure = None
        if status == "ok" and figs:
            # the finished figure itself: every rectangle in one of the ancestry colours with its extent in both directions, and
            # the labelled ticks of the chromosome axis
            with C.glue("reading the finished figure"):
                fr, ticks = [], []
                for ax in figs[-1].axes:
                    shapes = []
                    for col in ax.collections:
                        fcs = col.get_facecolor()
                        for i, path in enumerate(col.get_paths()):
                            if len(fcs):
                                shapes.append((path, fcs[i if len(fcs) > 1 else 0]))
                    shapes += [(pt.get_path(), pt.get_facecolor()) for pt in ax.patches]
                    for path, face in shapes:
                        fc = tuple(round(float(x), 6) for x in face)
                        pops = [p for p, cname in COLORS.items() if tuple(round(float(x), 6) for x in mc.to_rgba(cname)) == fc]
                        if len(pops) != 1 or len(path.vertices) < 4:
                            continue
                        xs, ys = [v[0] for v in path.vertices[:4]], [v[1] for v in path.vertices[:4]]
                        fr.append([pops[0], round(min(xs) * 10000), round(max(xs) * 10000), round(float(min(ys)), 4), round(float(max(ys)), 4)])
                    ticks += [[round(float(pos), 4), lab.get_text()] for pos, lab in zip(ax.get_yticks(), ax.get_yticklabels())]
                figure = {"rects": sorted(fr), "yticks": ticks}
        if os.environ.get("VERIF_TAPES") == "calls":  # experiment: exercise the fallback on the unchanged tree
            added.clear()
        if status == "ok" and not added and figs:
            # the blocks were not drawn through PlotHaplotypeBlock: read the coloured rectangles off the finished axes instead,
            # grouped into the horizontal bands they lie in (one band = one strand of one chromosome)
            with C.glue("reading the rectangles off the finished figure"):
                rects = []
                for ax in figs[-1].axes:
                    shapes = []
                    for col in ax.collections:
                        fcs = col.get_facecolor()
                        for i, path in enumerate(col.get_paths()):
                            if len(fcs):
                                shapes.append((path, fcs[i if len(fcs) > 1 else 0]))
                    shapes += [(pt.get_path(), pt.get_facecolor()) for pt in ax.patches]
                    for path, face in shapes:
                        fc = tuple(round(float(x), 6) for x in face)
                        pops = [p for p, cname in COLORS.items() if tuple(round(float(x), 6) for x in mc.to_rgba(cname)) == fc]
                        if len(pops) != 1 or len(path.vertices) < 4:
                            continue  # not one of the ancestry colours: an outline, a centromere mark …
                        xs, ys = [v[0] for v in path.vertices[:4]], [v[1] for v in path.vertices[:4]]
                        rects.append((round(min(ys), 4), round(max(ys), 4), round(min(xs) * 10000), round(max(xs) * 10000), pops[0]))
                by = {}
                for y0, y1, x0, x1, pop in rects:
                    by.setdefault((y0, y1), []).append([pop, x0, x1])
                bands = sorted(sorted(v, key=lambda r: r[1]) for v in by.values())
    finally:
        K.PlotHaplotypeBlock = orig
        Figure.savefig = orig_save
        plt.close("all")
    out = {"status": status, "drawn": added}
    if bands is not None:
        out["bands"] = bands
    if figure is not None:
        out["figure"] = figure
    return out


def oracle_plot(case, obs):
    if "error" in obs:
        return f"PlotKaryogram raised {obs}"
    names = {l["t"][0].rsplit("_", 1)[0] for l in case["lines"] if len(l["t"]) == 1}
    if case["name"] not in names:
        if obs["status"] == "ok" or obs["status"] == "exit:0":
            return f"sample {case['name']!r} is absent from the file but PlotKaryogram finished with status {obs['status']}"
        return None
    if obs["status"] != "ok":
        return f"PlotKaryogram exited with {obs['status']} for a sample that is present"
    exp = GetBlocksOracle(case)
    if "figure" in obs:
        why = _figure_oracle(case, obs["figure"], exp)
        if why:
            return why
    if "bands" in obs:
        # read off the finished figure: which band is which (chromosome, strand) is not observable there, so the bands are
        # compared with the sample's (chromosome, strand) sequences as a multiset
        want = {}
        for h, strand in enumerate(exp):
            for pop, c, x0, x1 in strand:
                want.setdefault((c, h), []).append([pop, x0, x1])
        want = sorted(sorted(v, key=lambda r: r[1]) for v in want.values())
        if obs["bands"] != want:
            return f"the coloured rectangles of the finished figure, band by band, {obs['bands']} differ from the sample's blocks per chromosome and strand {want}"
        return None
    got = [[b[:4] for b in obs["drawn"] if b[4] == h] for h in (0, 1)]
    if got != exp:
        return f"rectangles drawn {got} differ from the sample's blocks {exp}"
    return None


def _figure_oracle(case, fig, exp):
    """the saved figure holds the named sample's rectangles and no others, each on the row whose tick is labelled with its chromosome"""
    want = sorted([pop, x0, x1] for strand in exp for pop, c, x0, x1 in strand)
    got = sorted(r[:3] for r in fig["rects"])
    if got != want:
        extra = [r for r in got if r not in want]
        return f"the saved figure holds the coloured rectangles {got}; the sample's blocks are {want}" + (f" (not the sample's: {extra[:4]})" if extra else "")

    def label_is(text, c):
        t = text.strip()
        t = t[3:] if t.lower().startswith("chr") else t
        return t == str(c) or (c == 23 and t.upper() == "X")

    if not fig["yticks"]:
        return None
    # rows: group by vertical extent; a row lies around exactly one labelled tick, and everything in it belongs to that chromosome
    rows = {}
    for pop, x0, x1, y0, y1 in fig["rects"]:
        rows.setdefault((y0, y1), []).append([pop, x0, x1])
    seqs = {}
    for h, strand in enumerate(exp):
        for pop, c, x0, x1 in strand:
            seqs.setdefault((c, h), []).append([pop, x0, x1])
    free = {k: sorted(v) for k, v in seqs.items()}
    for (y0, y1), rr in sorted(rows.items()):
        mid = (y0 + y1) / 2
        pos, text = min(fig["yticks"], key=lambda t: abs(t[0] - mid))
        if abs(pos - mid) > 0.5:
            return f"a row of rectangles at y={y0}..{y1} lies at no labelled tick of the chromosome axis ({fig['yticks']})"
        cands = [k for k, v in free.items() if v == sorted(rr)]
        ok = [k for k in cands if label_is(text, k[0])]
        if not ok:
            return f"the rectangles {sorted(rr)} are drawn on the row labelled {text!r}; they are the blocks of chromosome {sorted({k[0] for k in cands}) or '?'}"
        del free[ok[0]]
    return None


def GetBlocksOracle(case):
    strands = []
    cur = None
    for l in case["lines"]:
        t = l["t"]
        if len(t) == 1:
            cur = None
            if t[0] in (case["name"] + "_1", case["name"] + "_2"):
                cur = []
                strands.append(cur)
        elif cur is not None:
            cur.append([t[0], _chrom(t[1]), l["cm"]])
    ends = {_chrom(c): v for c, v in case["ends"]} if case["ends"] is not None else None
    out = []
    for s in strands[:2]:
        o = []
        for i, (pop, c, cm) in enumerate(s):
            last = i == len(s) - 1 or s[i + 1][1] != c
            first = i == 0 or s[i - 1][1] != c
            o.append([pop, c, 1 if first else o[-1][3] + 1, ends[c] if (ends is not None and last) else cm])
        out.append(o)
    return out


CHECK = Check(
    id="C18",
    title="The karyogram draws exactly the sample's blocks from the breakpoints file",
    theorems=[
        "C18.blocks_are_samples_strands",
        "C18.addBlock_contiguous",
        "C18.absent_sample_empty",
        "C18.extension_exact",
        "C18.extension_exact_checked",
        "C18.extensionOld_refuted",
    ],
    sections=[
        Section(
            name="get_haplotype_blocks",
            theorems=["C18.blocks_are_samples_strands", "C18.addBlock_contiguous", "C18.absent_sample_empty", "C18.extension_exact", "C18.extension_exact_checked"],
            gen=gen,
            impl=impl,
            model_req=lambda c: {"op": "karyogram", **c},
            model_obs=lambda c, r: r,
            oracle=oracle,
            describe=describe,
            variants=variants,
            nontrivial=lambda c, o: C.jdump(c) if isinstance(o, dict) and o.get("strands") else None,
            setup=setup,
            teardown=teardown,
            rule="seeded random .bp files: 1-4 samples from a pool with underscore and prefix-related names (HG001 / HG001_B, S / S_1 / S_B), sample first/middle/last/absent, 1-3 chromosomes of {1,2,7,X} with optional chr prefix, 1-3 blocks per chromosome, with/without ends file (extra and missing chromosomes); non-trivial = the sample is present (blocks returned)",
        ),
        Section(
            name="plot_karyogram",
            theorems=["C18.absent_sample_empty"],
            gen=gen_plot,
            impl=impl_plot,
            oracle=oracle_plot,
            setup=setup,
            teardown=teardown,
            nontrivial=lambda c, o: C.jdump(c),
            rule="PlotKaryogram end to end on files of the same generator: one rectangle per block of the sample – read off the artists that actually land on the axes (x-extent and face colour) – incl. blocks only 0.005 cM long; error exit for an absent sample, incl. names that are a present sample's name plus _1/_2",
        ),
    ],
    trusted=["float('…') of short decimal cM tokens and the 1e-4 arithmetic agree with exact decimals after rounding to 1e-4 (tokens have one decimal)", "matplotlib renders the PathCollections it is given"],
    assumptions=["breakpoint files are well formed (strand headers end in _1/_2, block lines have >= 2 fields)"],
    anchors=[("haptools/karyogram.py", ["GetHaplotypeBlocks", "GetChrom", "PlotHaplotypeBlock", "PlotKaryogram", "GetChromOrder"])],
)
