"""C06 — .hap files round-trip and are parsed according to their header."""
from __future__ import annotations

import gzip
from dataclasses import dataclass, field

from . import common as C
from . import simdata as SD
from .run import Check, Section

_dir = None
_cls = {}
FMT = dict(anc="s", beta=".2f", cnt="d", score=".3f", note="s")
# the format of an extra field is any Python format string: repeats print their effect in exponent notation
FMTT = {"H": FMT, "V": FMT, "R": dict(FMT, beta=".2e")}
COMMENTS = ["#", "# ", "#text", "#\ttext", "# a comment", "#H", "#H\t", "#\tfoo\tbar", "#V", "##double", "# version 1 of the reference panel", "# orderH beta ancestry were fitted", "# orderV score", "#  version 9.9.9"]  # the last four: prose that starts with the name of a metadata line


def setup():
    global _dir
    _dir = C.scratch_dir("c06")
    return _dir


def teardown(_):
    C.rm_tree(_dir)


def classes():
    """custom dataclasses with extra fields, built exactly as the documentation shows"""
    if _cls:
        return _cls
    from haptools.data import Extra, Haplotype, Repeat, Variant

    @dataclass
    class H3(Haplotype):
        anc: str
        beta: float
        cnt: int
        _extras: tuple = field(repr=False, init=False, default=(Extra("anc", "s", "ancestry"), Extra("beta", ".2f", "effect"), Extra("cnt", "d", "count")))

    @dataclass
    class H1(Haplotype):
        beta: float
        _extras: tuple = field(repr=False, init=False, default=(Extra("beta", ".2f", "effect"),))

    @dataclass
    class V1(Variant):
        score: float
        _extras: tuple = field(repr=False, init=False, default=(Extra("score", ".3f", "score"),))

    @dataclass
    class V2(Variant):
        score: float
        note: str
        _extras: tuple = field(repr=False, init=False, default=(Extra("score", ".3f", "score"), Extra("note", "s", "note")))

    @dataclass
    class R1(Repeat):
        beta: float
        _extras: tuple = field(repr=False, init=False, default=(Extra("beta", ".2e", "effect"),))

    _cls.update(H3=H3, H1=H1, V1=V1, V2=V2, R1=R1, H0=Haplotype, V0=Variant, R0=Repeat)
    return _cls


READERS = {
    "full": dict(kw=("H3", "V2", "R1"), names={"H": ["anc", "beta", "cnt"], "V": ["score", "note"], "R": ["beta"]}),
    "h1": dict(kw=("H1", "V0", "R0"), names={"H": ["beta"], "V": [], "R": []}),
    "v1": dict(kw=("H0", "V1", "R0"), names={"H": [], "V": ["score"], "R": []}),
    "base": dict(kw=("H0", "V0", "R0"), names={"H": [], "V": [], "R": []}),
}


def gen(rng, tier):
    n = 250 if tier == "quick" else 8000
    for t in range(n):
        haps = []
        for i in range(rng.randint(0, 4)):
            vs = []
            for _ in range(rng.randint(0, 3)):
                st = rng.randint(1, 100)
                vs.append({"start": st, "end": st + rng.randint(1, 5), "id": f"v{rng.randint(0, 5)}", "allele": rng.choice(["A", "C", "GT", "T"]), "score": round(rng.gauss(0, 1), 3), "note": rng.choice(["ok", "x y", "n/a", "q", "", "n/a ", " lead"])})
            st = rng.randint(1, 100)
            haps.append({"t": "H", "chrom": rng.choice(["1", "chr2", "X", "21"]), "start": st, "end": st + rng.randint(1, 100), "id": rng.choice(["H", "hap.", "chr21.q.3365*"]) + str(i), "anc": rng.choice(["YRI", "CEU"]), "beta": round(rng.gauss(0, 1), 2), "cnt": rng.randint(-5, 5), "vars": vs})
        for i in range(rng.randint(0, 2)):
            st = rng.randint(1, 100)
            haps.append({"t": "R", "chrom": rng.choice(["1", "chr2"]), "start": st, "end": st + rng.randint(1, 100), "id": f"R{i}", "beta": round(rng.gauss(0, 1), 2)})
        if not haps:
            continue
        rng.shuffle(haps)
        comments = []
        for cm in COMMENTS:
            if rng.random() < 0.4:
                comments.append([cm, rng.random()])
        yield {"data": haps, "comments": comments, "shuffle_seed": rng.randrange(2**31), "reader": rng.choice(list(READERS)), "gz": rng.random() < 0.25, "shuffle": rng.random() < 0.7, "drop_order_lines": rng.random() < 0.3, "drop_types": rng.sample(["H", "V", "R"], rng.randint(1, 3))}


def build(case, fname):
    from haptools.data import Haplotypes

    K = classes()
    hs = Haplotypes(fname, haplotype=K["H3"], variant=K["V2"], repeat=K["R1"], log=SD.silent_log())
    hs.data = {}
    for h in case["data"]:
        if h["t"] == "H":
            o = K["H3"](h["chrom"], h["start"], h["end"], h["id"], h["anc"], h["beta"], h["cnt"])
            o.variants = tuple(K["V2"](v["start"], v["end"], v["id"], v["allele"], v["score"], v["note"]) for v in h["vars"])
        else:
            o = K["R1"](h["chrom"], h["start"], h["end"], h["id"], h["beta"])
        hs.data[o.id] = o
    return hs


def canon(hs, names):
    from haptools.data import Haplotype

    out = []
    for k, o in hs.data.items():
        t = "H" if isinstance(o, Haplotype) else "R"
        ex = lambda obj, tt: [[n, format(getattr(obj, n), FMTT[tt][n])] for n in names[tt]]
        owner = {"t": t, "mand": [o.chrom, str(o.start), str(o.end), o.id], "extras": ex(o, t)}
        vs = [{"t": "V", "mand": [o.id, str(v.start), str(v.end), v.id, v.allele], "extras": ex(v, "V")} for v in getattr(o, "variants", ())]
        out.append([owner, vs])
    return out


_lines = {}


def impl(case):
    import random

    from haptools.data import Haplotypes

    K = classes()
    f = _dir / ("w.hap.gz" if case["gz"] else "w.hap")
    hs = build(case, f)
    hs.write()
    raw = (gzip.open(f, "rt") if case["gz"] else open(f)).read()
    lines = raw.rstrip("\n").split("\n")
    # write -> read -> write: byte-for-byte
    r1 = Haplotypes(f, haplotype=K["H3"], variant=K["V2"], repeat=K["R1"], log=SD.silent_log())
    r1.read()
    f2 = _dir / ("w2.hap.gz" if case["gz"] else "w2.hap")
    r1.fname = f2
    r1.write()
    raw2 = (gzip.open(f2, "rt") if case["gz"] else open(f2)).read()
    # shuffled header / body, comment lines inserted anywhere, read with one of four reader classes
    rnd = random.Random(case["shuffle_seed"])
    head = [l for l in lines if l.startswith("#")]
    body = [l for l in lines if not l.startswith("#")]
    if case["drop_order_lines"]:
        # without order lines the declaration order defines the columns: put the (alphabetically written)
        # declarations into the classes' field order
        head = [l for l in head if not any(l.startswith("#\torder" + t) for t in case["drop_types"])]
        order = {"#H": ["anc", "beta", "cnt"], "#V": ["score", "note"], "#R": ["beta"]}
        decl = [l for l in head if l.split("\t")[0] in order]
        decl.sort(key=lambda l: (l.split("\t")[0], order[l.split("\t")[0]].index(l.split("\t")[1])))
        head = [l for l in head if l.split("\t")[0] not in order] + decl
    if case["shuffle"]:
        if not case["drop_order_lines"]:
            rnd.shuffle(head)  # without (some) order lines the declaration order *is* the column order: it must stay
        rnd.shuffle(body)
    for cm, where in case["comments"]:
        pos = int(where * (len(head) + len(body) + 1))
        if pos <= len(head):
            head.insert(pos, cm)
        else:
            body.insert(pos - len(head), cm)
    allines = head + body
    f3 = _dir / "w3.hap"
    open(f3, "w").write(C.text_ending(case, "w3.hap", "\n".join(allines) + "\n"))
    rd = READERS[case["reader"]]
    r3 = Haplotypes(f3, haplotype=K[rd["kw"][0]], variant=K[rd["kw"][1]], repeat=K[rd["kw"][2]], log=SD.silent_log())
    r3.read()
    _lines[C.jdump(case)] = [l.split("\t") for l in allines]
    obs = {"same_bytes": raw == raw2, "first_write": [l.split("\t") for l in lines] if not raw == raw2 else None, "read": canon(r3, rd["names"])}
    # the collection this reader holds, written by its own classes (only the extras it asked for) and read back with them:
    # the round trip of the statement for every set of line classes, each class being used for file after file in one process
    f5 = _dir / "w5.hap"
    r3.fname = f5
    r3.write()
    r5 = Haplotypes(f5, haplotype=K[rd["kw"][0]], variant=K[rd["kw"][1]], repeat=K[rd["kw"][2]], log=SD.silent_log())
    r5.read()
    if canon(r5, rd["names"]) != obs["read"]:
        obs["own_roundtrip_differs"] = True
    if C.plumb(case, "stream", 4) == 0:
        # the same file offered as a stream (what `cat x.hap | haptools … /dev/stdin` hands the reader): same records
        with C.as_stream(f3) as fifo:
            r4 = Haplotypes(fifo, haplotype=K[rd["kw"][0]], variant=K[rd["kw"][1]], repeat=K[rd["kw"][2]], log=SD.silent_log())
            r4.read()
        if canon(r4, rd["names"]) != obs["read"]:
            obs["stream_differs"] = True
    return obs


def model_req(case):
    rd = READERS[case["reader"]]
    return {"op": "hapParse", **rd["names"], "lines": _lines.get(C.jdump(case), [])}


def model_obs(case, resp):
    return {"same_bytes": True, "first_write": None, "read": resp["data"]}


def oracle(case, obs):
    """expected records straight from the generated content (independent of the model)"""
    if "error" in obs:
        return f"write/read raised {obs}"
    if not obs["same_bytes"]:
        return "writing what was read does not reproduce the file byte for byte"
    if obs.get("own_roundtrip_differs"):
        return f"the records read with the {case['reader']} classes, written with those classes and read back, are not the same records"
    if obs.get("stream_differs"):
        return "the file read as a stream (a named pipe, as /dev/stdin is) gives other records than the same file read by name"
    rd = READERS[case["reader"]]
    # after the shuffle the file order of the H/R lines is the reader's record order; variants keep file order per haplotype:
    # compare as sets of records with their variant multisets, plus exact field values
    def rec(h):
        ex = lambda tt, o: [[n, format(o[n], FMTT[tt][n])] for n in rd["names"][tt]]
        owner = {"t": h["t"], "mand": [h["chrom"], str(h["start"]), str(h["end"]), h["id"]], "extras": ex(h["t"], h)}
        vs = [{"t": "V", "mand": [h["id"], str(v["start"]), str(v["end"]), v["id"], v["allele"]], "extras": ex("V", v)} for v in h.get("vars", [])]
        return owner, vs

    exp = {h["id"]: rec(h) for h in case["data"]}
    got = {o["mand"][3]: (o, vs) for o, vs in obs["read"]}
    if set(exp) != set(got):
        return f"records read {sorted(got)} differ from those written {sorted(exp)}"
    for k in exp:
        if got[k][0] != exp[k][0]:
            return f"record {k}: read {got[k][0]}, wrote {exp[k][0]} (reader {case['reader']}; extras must be bound by name per the order line)"
        key = lambda v: C.jdump(v)
        if sorted(map(key, got[k][1])) != sorted(map(key, exp[k][1])):
            return f"variants of {k}: read {got[k][1]}, wrote {exp[k][1]}"
        if not case["shuffle"] and got[k][1] != exp[k][1]:
            return f"variant order of {k} changed"
    if not case["shuffle"] and [o["mand"][3] for o, _ in obs["read"]] != [h["id"] for h in case["data"]]:
        return "record order changed"
    return None


def describe(case, obs):
    tags = [f"reader={case['reader']}", "gzip" if case["gz"] else "plain", "shuffled" if case["shuffle"] else "file-order"]
    tags += [f"comment:{c!r}" for c, _ in case["comments"]]
    if case["drop_order_lines"]:
        tags.append("no-order-lines")
    return tags


# ------------------------------------------------------------------ undeclared-but-required extra fields
HDR_READERS = {
    **READERS,
    "hr": dict(kw=("H1", "V0", "R1"), names={"H": ["beta"], "V": [], "R": ["beta"]}),
    "r1": dict(kw=("H0", "V0", "R1"), names={"H": [], "V": [], "R": ["beta"]}),
    "hv": dict(kw=("H1", "V1", "R0"), names={"H": ["beta"], "V": ["score"], "R": []}),
}
NAME_POOL = ["anc", "beta", "cnt", "score", "note"]


def gen_header(rng, tier):
    n = 150 if tier == "quick" else 6000
    for _ in range(n):
        reader = rng.choice(list(HDR_READERS))
        lines = []
        mode = rng.choice(["complete", "drop-one", "random", "random", "other-type-only"])
        req = HDR_READERS[reader]["names"]
        for t in "HVR":
            for nm in NAME_POOL:
                if mode == "complete":
                    decl = nm in req[t] or rng.random() < 0.15
                elif mode == "other-type-only":
                    # a required name is declared, but only for line types whose class does not require it
                    decl = nm not in req[t] and any(nm in req[u] for u in "HVR") or (nm in req[t] and rng.random() < 0.3)
                else:
                    decl = rng.random() < (0.8 if nm in req[t] else 0.2)
                if decl:
                    lines.append([f"#{t}", nm, rng.choice(["s", "d", ".2f"]), rng.choice(["description", "a b", ""])])
        if mode == "drop-one":
            have = [l for l in lines if l[1] in req[l[0][1]]]
            want = [(t, nm) for t in "HVR" for nm in req[t]]
            lines = [l for l in lines if l[1] not in req[l[0][1]]]
            if want:
                drop = rng.choice(want)
                lines += [[f"#{t}", nm, ".2f", "d"] for t, nm in want if (t, nm) != drop]
        # lines that only look like declarations, metadata, order lines, comments
        for extra in [["#H", "beta"], ["#R", "beta", ".2f"], ["#Hbeta", ".2f", "x"], ["#", "orderH", "beta"], ["#", "orderR", "beta"], ["#", "version", "0.2.0"], ["# R\tbeta"], ["#X", "beta", ".2f", "x"], ["#"], ["#R beta .2f x"]]:
            if rng.random() < 0.25:
                lines.append(extra)
        rng.shuffle(lines)
        if rng.random() < 0.2:
            lines = lines + [list(rng.choice(lines))] if lines else lines  # a declaration given twice
        if rng.random() < 0.08:
            lines = []  # a file without any header line at all
        yield {"reader": reader, "lines": lines}


def _reported_pairs(msgs):
    """(line type, field name) pairs in today's wording of the report; None when the wording is another one"""
    import re

    out, seen = set(), False
    for m in msgs:
        if "declared in the header:" in m:
            seen = True
            out |= {(a, b) for a, b in re.findall(r"#([HVR]) ([A-Za-z_]+)", m.split("declared in the header:")[1])}
    return sorted(map(list, out)) if seen else None


def _reported_names(msgs, names):
    """the field names a report mentions, however it is worded"""
    import re

    return sorted({n for n in names for m in msgs if re.search(r"(?<![\w])" + re.escape(n) + r"(?![\w])", m)})


def impl_header(case):
    from haptools.data import Haplotypes

    K = classes()
    rd = HDR_READERS[case["reader"]]
    raw = ["\t".join(l) for l in case["lines"]]
    with C.capture_logs() as cap:
        h = Haplotypes(_dir / "hdr.hap", haplotype=K[rd["kw"][0]], variant=K[rd["kw"][1]], repeat=K[rd["kw"][2]], log=cap.logger)
        h.check_header(list(raw), softly=True)
    soft = [m for l, m in cap.records if l == "WARNING"]
    try:
        h.check_header(list(raw), softly=False)
        hard = None
    except ValueError as e:
        hard = str(e)
    # the same header through read(): the header is examined when the first body line arrives, so the body holds one
    # line (of a line type the reader skips with a warning, so that no extra-field binding is involved)
    open(_dir / "hdr.hap", "w").write("".join(r + "\n" for r in raw) + "Z\tnot-a-record\n")
    with C.capture_logs() as cap2:
        h2 = Haplotypes(_dir / "hdr.hap", haplotype=K[rd["kw"][0]], variant=K[rd["kw"][1]], repeat=K[rd["kw"][2]], log=cap2.logger)
        h2.read()
    onread = [m for l, m in cap2.records if l == "WARNING"]
    names = sorted({nm for t in "HVR" for nm in rd["names"][t]})
    hardl = [hard] if hard else []
    return {"reported": bool(_reported_names(soft, names)), "raises": bool(_reported_names(hardl, names)), "names": _reported_names(soft, names), "names_in_error": _reported_names(hardl, names), "names_on_read": _reported_names(onread, names),
            "missing": _reported_pairs(soft), "missing_in_error": _reported_pairs(hardl), "missing_on_read": _reported_pairs(onread)}


def model_obs_header(case, resp):
    m = sorted(resp["missing"])
    nm = sorted({x[1] for x in m})
    return {"reported": resp["reported"], "raises": resp["reported"], "names": nm, "names_in_error": nm, "names_on_read": nm, "missing": m, "missing_in_error": m, "missing_on_read": m}


def equal_header(a, b):
    if "error" in a:
        return False
    for k in ("reported", "raises", "names", "names_in_error", "names_on_read"):
        if a[k] != b[k]:
            return False
    # the exact (line type, name) pairs only where the report is worded as it is today (nothing is reported → nothing to read)
    return all(a[k] is None or a[k] == b[k] for k in ("missing", "missing_in_error", "missing_on_read"))


def oracle_header(case, obs):
    """required minus declared-for-that-line-type, straight from the property text"""
    if "error" in obs:
        return f"check_header failed: {obs}"
    req = HDR_READERS[case["reader"]]["names"]
    declared = {(l[0][1], l[1]) for l in case["lines"] if len(l) >= 4 and l[0] in ("#H", "#V", "#R")}
    want = sorted([t, nm] for t in "HVR" for nm in req[t] if (t, nm) not in declared)
    wn = sorted({x[1] for x in want})
    for k in ("names", "names_in_error", "names_on_read"):
        if obs[k] != wn:
            return f"{k}: the report mentions the fields {obs[k]}, but the header leaves {want} undeclared (reader requires {req})"
    for k in ("missing", "missing_in_error", "missing_on_read"):
        if obs[k] is not None and obs[k] != want:
            return f"{k}: reported {obs[k]}, but the header leaves {want} undeclared (reader requires {req})"
    if obs["reported"] != bool(want) or obs["raises"] != bool(want):
        return f"reported={obs['reported']} raises={obs['raises']} although {want} are undeclared"
    return None


def describe_header(case, obs):
    req = HDR_READERS[case["reader"]]["names"]
    declared = {(l[0][1], l[1]) for l in case["lines"] if len(l) >= 4 and l[0] in ("#H", "#V", "#R")}
    miss = [(t, nm) for t in "HVR" for nm in req[t] if (t, nm) not in declared]
    tags = [f"reader={case['reader']}", f"undeclared-required={min(len(miss), 3)}"]
    if any((u, nm) in declared for t, nm in miss for u in "HVR" if u != t):
        tags.append("missing-name-declared-for-another-line-type")
    return tags


# ------------------------------------------------------------------ version strings
VERSIONS = ["0.2.0", "0.2.1", "0.2.10", "0.1.0", "0.0.1", "0.3.0", "1.0.0", "1.2.0", "0.10.0", "2.1.5", "0.20.0", "0.21.4", "0.200.1", "0.12.0", "10.2.0", "20.2.0", "0.22.2", "0.9.0", "0.19.9", "1.10.0", "0.100.0", "0.02.0", "00.2.0", "0.2.00", "0.1.99", "0.11.3"]  # incl. versions that merely share a textual prefix with the supported one


def gen_versions(rng, tier):
    for v in VERSIONS:
        yield {"version": v}
    yield {"version": None}


def impl_versions(case):
    from haptools.data import Haplotypes

    f = _dir / "ver.hap"
    with open(f, "w") as o:
        if case["version"] is not None:
            o.write(f"#\tversion\t{case['version']}\n")
        o.write("H\t1\t10\t20\tH1\nV\tH1\t10\t11\tv1\tA\n")
    with C.capture_logs() as cap:
        h = Haplotypes(f, log=cap.logger)
        try:
            h.read()
            raised = None
        except Exception as e:  # noqa
            raised = type(e).__name__
    # "reported" however it is worded: the file draws more warnings / errors than the same file declaring the supported version
    with open(f, "w") as o:
        o.write("#\tversion\t0.2.0\n")
        o.write("H\t1\t10\t20\tH1\nV\tH1\t10\t11\tv1\tA\n")
    with C.capture_logs() as cap0:
        Haplotypes(f, log=cap0.logger).read()
    base = sum(1 for l, _ in cap0.records if l in ("ERROR", "WARNING"))
    n = sum(1 for l, _ in cap.records if l in ("ERROR", "WARNING"))
    # ... and, since an older supported version draws a note too ("outdated, consider upgrading"), the documented strict form of
    # the header check (softly=False: "raise instead of warn") must refuse exactly the unsupported ones
    strict = None
    if case["version"] is not None:
        with C.capture_logs() as cap1:
            hh = Haplotypes(f, log=cap1.logger)
            try:
                hh.check_header([f"#\tversion\t{case['version']}"], softly=False)
                strict = False
            except Exception as e:  # noqa
                if not C.deliberate_raise(e):
                    raise
                strict = True
    return {"raised": raised, "errors": sum(1 for l, _ in cap.records if l == "ERROR"), "warnings": sum(1 for l, _ in cap.records if l == "WARNING"), "unsupported_reported": n > base, "strict_refused": strict, "loaded": len(h.data or {})}


def model_req_versions(case):
    from haptools.data import Haplotypes

    # the reader's own version string, as the implementation states it
    return {"op": "hapVersion", "observed": case["version"] or "", "expected": str(getattr(Haplotypes("x.hap", log=SD.silent_log()), "version", "0.2.0"))}


def model_obs_versions(case, resp):
    return {"verdict": resp["verdict"]}


def equal_versions(a, b):
    if b["verdict"] is None:
        return True  # no version line / not a three-number string: outside the model
    if "error" in a:
        return False
    refused = a["raised"] is not None or (a["unsupported_reported"] and a.get("strict_refused") is not False)
    return refused == (b["verdict"] == "unsupported")


def oracle_versions(case, obs):
    if "error" in obs:
        return f"raised {obs}"
    v = case["version"]
    if v is None:
        return None
    o = tuple(map(int, v.split(".")))
    unsupported = o[0] != 0 or o[1] > 2
    reported = obs["raised"] is not None or obs["unsupported_reported"]
    if unsupported and not reported:
        return f"version {v} (unsupported major / newer minor) was read without being reported"
    if unsupported and obs.get("strict_refused") is False:
        return f"version {v} (unsupported major / newer minor) passes the strict header check (softly=False), which refuses other unsupported versions: it is treated as a supported one"
    if not unsupported and obs.get("strict_refused"):
        return f"supported version {v} is refused by the strict header check"
    if not unsupported and obs["raised"] is not None:
        return f"supported version {v} was rejected with {obs['raised']}"
    return None


CHECK = Check(
    id="C06",
    title=".hap files round-trip and are parsed according to their header",
    theorems=["C06.read_write", "C06.write_read_write", "C06.comments_ignored", "C06.comment_shapes", "C06.binding_by_order_line", "C06.unrequested_skipped", "C06.undeclared_required_reported", "C06.version_reported", "C06.version_accepted", "C06.version_string_reported"],
    sections=[
        Section(
            name="write_shuffle_read",
            theorems=["C06.read_write", "C06.write_read_write", "C06.comments_ignored", "C06.binding_by_order_line", "C06.unrequested_skipped"],
            gen=gen,
            impl=impl,
            model_req=model_req,
            model_obs=model_obs,
            oracle=oracle,
            describe=describe,
            setup=setup,
            teardown=teardown,
            nontrivial=lambda c, o: C.jdump(c["data"]) if sum(len(h.get("vars", [])) for h in c["data"]) > 0 else None,
            rule="seeded random record sets (0-4 haplotypes with 0-3 variants, 0-2 repeats, IDs/contigs over the permitted alphabet incl. '.', '*', str/int/float extras on every line type through custom dataclasses) written with Haplotypes.write (plain / gzip); (a) read and re-written: bytes must be identical; (b) header and body lines shuffled independently (V before its H, declarations in any order, the order lines of any subset of the line types optionally removed (declarations then in column order), string extras that are empty or end / start with a blank), every comment shape ('#', '# ', '#text', '#<TAB>text', '#H', '#H<TAB>', '#V', '##x', …) inserted at random positions, then read with four reader classes (all extras, only H.beta, only V.score, none) and compared with the Lean parser on the same lines and with the generated content",
        ),
        Section(
            name="undeclared_required",
            theorems=["C06.undeclared_required_reported"],
            gen=gen_header,
            impl=impl_header,
            model_req=lambda c: {"op": "hapHeader", **HDR_READERS[c["reader"]]["names"], "lines": c["lines"]},
            model_obs=model_obs_header,
            equal=equal_header,
            oracle=oracle_header,
            describe=describe_header,
            setup=setup,
            teardown=teardown,
            nontrivial=lambda c, o: C.jdump(c) if isinstance(o, dict) and o.get("names") else None,
            rule="seeded random headers for seven reader configurations (incl. Haplotype and Repeat classes that both require 'beta', as simphenotype's do): per line type and name of a pool every declaration present or absent (complete headers, no header line at all, exactly one required declaration dropped, random subsets, a required name declared only for the line types that do not require it), plus order lines, metadata, duplicated declarations and lines that merely look like declarations; check_header(softly=True) warnings, check_header(softly=False) ValueError and the warnings of read() are read for the field names they mention (and, where the report is worded as today, for the '#t name' pairs) and compared with the Lean bookkeeping and with required-minus-declared computed from the generated content",
        ),
        Section(
            name="version_strings",
            theorems=["C06.version_reported", "C06.version_accepted", "C06.version_string_reported"],
            gen=gen_versions,
            impl=impl_versions,
            model_req=model_req_versions,
            model_obs=model_obs_versions,
            equal=equal_versions,
            oracle=oracle_versions,
            setup=setup,
            teardown=teardown,
            nontrivial=lambda c, o: c["version"],
            describe=lambda c, o: "reported" if isinstance(o, dict) and (o.get("raised") or o.get("errors")) else "accepted",
            exhaustive=True,
            rule="a table of version strings (current, older patch/minor, newer minor, other majors, none): unsupported major or newer minor must be reported (error log or exception)",
        ),
    ],
    trusted=["Python format()/int()/float() for single fields (tokens are compared as written)", "gzip", "str.split on tabs"],
    assumptions=["field values contain no tab or newline; haplotype IDs are unique; every V line names an H line of the file"],
    anchors=[("haptools/data/haplotypes.py", ["Haplotypes.check_header", "Haplotypes.check_version", "Haplotypes._get_field_types", "Haplotypes.__iter__", "Haplotypes.read", "Haplotypes.to_str", "Haplotypes.write", "Haplotype.from_hap_spec", "Variant.from_hap_spec", "Repeat.from_hap_spec", "Haplotype.to_hap_spec", "Variant.to_hap_spec", "Repeat.to_hap_spec", "Haplotypes._line_type"])],
)
