"""C20 — simgenotype rejects malformed inputs up front and completes on well-formed ones."""
from __future__ import annotations

import glob
import os
import re
from fractions import Fraction

from . import c19b
from . import common as C
from . import gtfiles as GF
from . import simdata as SD
from .run import Check, Section

_dir = None
VIOLATIONS = [
    None, None, None,
    "samplesNotInt", "samplesLt1", "fewPops", "genNotInt", "genOrder", "fracCount", "fracSum", "fracNotFloat",
    "badChrom", "missingMap", "badMapLine", "popsizeNonPos", "popsizeNotInt", "sampleNotInVcf", "popNotInInfo",
    "tooFewSamples", "region", "mapdir",
]
MSG2REASON = [
    (r"Can't convert samples number", "samplesNotInt"),
    (r"Invalid number of populations", "fewPops"),
    (r"Number of samples is less than 1", "samplesLt1"),
    (r"Can't convert generation to integer", "genNotInt"),
    (r"Can't convert population fractions", "fracNotFloat"),
    (r"Total fractions given to populations do not match", "fracCount"),
    (r"is less than 1\. Please ensure the generations", "genOrder"),
    (r"do not sum to 1", "fracSum"),
    (r"Map directory given is not a valid path", "mapdir"),
    (r"in the list given is not valid", "badChrom"),
    (r"No valid coordinate files found", "noMaps"),
    (r"Popsize is not an Integer", "popsizeNotInt"),
    (r"Popsize must be greater than 0", "popsizeNonPos"),
    (r"End coordinates in region", "region"),
    (r"Unable to collect vcf samples", "vcfUnreadable"),
    (r"in sampleinfo file is not present in the vcf", "sampleNotInVcf"),
    (r"in model file is not present in the sample info", "popNotInInfo"),
    (r"does not have enough samples to sample without replacement", "tooFewSamples"),
    (r"Unable to find all chromosomes", "missingMap"),
    (r"Map file contains an incorrect amount of fields", "badMapLine"),
]


def setup():
    global _dir
    _dir = C.scratch_dir("c20")
    return _dir


def teardown(_):
    C.rm_tree(_dir)


def gen(rng, tier):
    n = 130 if tier == "quick" else 3000
    for t in range(n):
        v = VIOLATIONS[t % len(VIOLATIONS)]
        nsamp = rng.randint(1, 4)
        pops = ["CEU", "YRI", "AMR"][: rng.randint(2, 3)]
        k = len(pops)
        lines = []
        g = 0
        for li in range(rng.randint(1, 4)):
            g += rng.randint(1, 2)
            adm = "0" if li == 0 else rng.choice(["0", "0.5", "0.2"])
            rest = int((1 - Fraction(adm)) * 1000)  # in thousandths, split exactly into k parts (some may be 0)
            cuts = sorted(rng.randint(0, rest) for _ in range(k - 1))
            parts = [b - a for a, b in zip([0] + cuts, cuts + [rest])]
            lines.append([str(g), adm] + [f"{x / 1000:.3f}".rstrip("0").rstrip(".") if x else "0" for x in parts])
        chroms = sorted(rng.sample(["1", "2", "7", "22"], rng.randint(1, 3)), key=int) + (["X"] if rng.random() < 0.3 else [])
        sep = rng.choice(["\t", " ", "  ", " \t "])
        per_pop = rng.randint(nsamp, nsamp + 2)
        if rng.random() < 0.5:
            per_pop = {q: rng.randint(nsamp, nsamp + 2) for q in ["CEU", "YRI", "AMR", "EAS"]}
        case = dict(violation=v, nsamp=str(nsamp), pops=pops, lines=lines, chroms=chroms, sep=sep, popsize=rng.choice([1, 5, 10, 50]), only_bp=rng.random() < 0.4, no_repl=rng.random() < 0.5, per_pop=per_pop, region=None, seed=rng.randrange(2**31), map_missing=None, bad_map_line=None, bad_sample=None, drop_pop=None, mapdir_ok=True, line_idx=rng.randrange(len(lines)))
        case["extra_maps"] = rng.sample(["10", "11", "12", "17", "20", "21", "3", "72"], rng.randint(0, 4)) if rng.random() < 0.6 else []
        if rng.random() < 0.3:
            st = rng.choice([100, 150, 250, 650, 650])  # 650: behind the last marker of every map (the chromosome goes on there)
            case["region"] = {"chr": chroms[0], "start": st, "end": rng.choice([e for e in (150, 250, 450, 600, 5000) if e > st])}
            case["chroms"] = [chroms[0]]
        li = case["line_idx"]
        if v == "samplesNotInt":
            case["nsamp"] = rng.choice(["five", "2.5", "1e2"])
        elif v == "samplesLt1":
            case["nsamp"] = rng.choice(["0", "-3"])
        elif v == "fewPops":
            case["pops"] = pops[:1]
            case["lines"] = [[l[0], l[1], str(1 - Fraction(l[1]))] for l in lines]
        elif v == "genNotInt":
            lines[li][0] = rng.choice(["x", "1.5", "gen2"])
        elif v == "genOrder":
            if li == 0:
                lines[0][0] = rng.choice(["0", "-1"])
            else:
                lines[li][0] = lines[li - 1][0] if rng.random() < 0.5 else str(int(lines[li - 1][0]) - 1)
        elif v == "fracCount":
            if rng.random() < 0.5:
                lines[li].append("0")
            else:
                lines[li].pop()
                lines[li][-1] = str(float(1 - sum(Fraction(x) for x in lines[li][1:-1])))
        elif v == "fracSum":
            lines[li][-1] = str(float(Fraction(lines[li][-1]) + rng.choice([Fraction(1, 5), Fraction(-1, 10), Fraction(1, 1000)])))
        elif v == "fracNotFloat":
            lines[li][-1] = "abc"
        elif v == "badChrom":
            case["chroms"] = case["chroms"][:-1] + [rng.choice(["23", "chr1", "0", "Y", "MT"])]
            case["region"] = None
        elif v == "missingMap":
            case["map_missing"] = rng.choice(case["chroms"])
        elif v == "badMapLine":
            # any line of the map may be the malformed one – also one lying beyond the end of a requested region
            case["bad_map_line"] = [rng.choice(case["chroms"]), rng.choice([3, 5]), rng.choice([0, 2, 3, 5])]
            if t % 2 == 0:
                # every other such case: the malformed line is the last line of a map that lacks its final newline
                case["bad_map_line"][1:] = [3 if t % 4 == 0 else 5, 5]
                case["map_cut_newline"] = True
            elif rng.random() < 0.5:
                c = case["bad_map_line"][0]
                case["region"] = {"chr": c, "start": rng.choice([100, 150]), "end": rng.choice([150, 250])}
                case["chroms"] = [c]
                case["bad_map_line"][2] = rng.choice([3, 5])  # markers 400 / 600: beyond the region's end
        elif v == "popsizeNonPos":
            case["popsize"] = rng.choice([0, -5])
        elif v == "popsizeNotInt":
            case["popsize"] = rng.choice([10.0, "20"])
        elif v == "sampleNotInVcf":
            case["bad_sample"] = True
            case["only_bp"] = False
        elif v == "popNotInInfo":
            case["drop_pop"] = rng.choice(pops)
            case["only_bp"] = False
        elif v == "tooFewSamples":
            short = max(nsamp - rng.randint(1, 2), 0) if nsamp > 1 else 0
            if short == 0:
                case["nsamp"], short = "2", 1
                nsamp = 2
            if rng.random() < 0.7:
                # exactly one population (any position in the header) is short, the others have enough
                sp = rng.choice(pops)
                case["per_pop"] = {q: (short if q == sp else nsamp + rng.randint(0, 2)) for q in pops}
            else:
                case["per_pop"] = short
            case["no_repl"] = True
            case["only_bp"] = False
        elif v == "region":
            case["region"] = {"chr": case["chroms"][0], "start": rng.choice([5000, 451]), "end": rng.choice([100, 450])}
            case["chroms"] = [case["chroms"][0]]
        elif v == "mapdir":
            case["mapdir_ok"] = False
        yield case


MAPS = {c: [(100 * (i + 1), 5 * i) for i in range(6)] for c in ["1", "2", "7", "22", "X"]}


def materialise(case):
    d = _dir / "in"
    C.rm_tree(d)
    d.mkdir(parents=True)
    with open(d / "model.dat", "w") as f:
        f.write(C.text_ending(case, "model.dat", case["sep"].join([case["nsamp"], "Admixed", *case["pops"]]) + "\n" + "".join(case["sep"].join(l) + "\n" for l in case["lines"])))
    md = d / "maps"
    md.mkdir()
    # maps of chromosomes that were not requested may lie in the same directory (a user keeps all of them there),
    # among them two-digit ones that begin with a requested single digit
    for c in case.get("extra_maps", []):
        if c not in case["chroms"]:
            with open(md / f"genetic_map_chr{c}.map", "w") as f:
                for i, (bp, cm) in enumerate(MAPS["1"]):
                    f.write(f"{c} rs{bp} {cm} {bp}\n")
    for c in set(case["chroms"]) & set(MAPS):
        if c == case["map_missing"]:
            continue
        txt = ""
        for i, (bp, cm) in enumerate(MAPS[c]):
            fields = [c, f"rs{bp}", str(cm), str(bp)]
            if case["bad_map_line"] and case["bad_map_line"][0] == c and i == (case["bad_map_line"][2] if len(case["bad_map_line"]) > 2 else 2):
                fields = fields[:3] if case["bad_map_line"][1] == 3 else fields + ["extra"]
            txt += " ".join(fields) + "\n"
        with open(md / f"genetic_map_chr{c}.map", "w") as f:
            f.write(txt[:-1] if case.get("map_cut_newline") and case["bad_map_line"] and case["bad_map_line"][0] == c else C.text_ending(case, "map" + c, txt))
    # reference panel + sample info
    samples, info = [], []
    for p in ["CEU", "YRI", "AMR", "EAS"]:
        pp = case["per_pop"]
        for i in range((pp.get(p, 1) if isinstance(pp, dict) else pp) if p in case["pops"] else 1):
            s = f"{p}{i}"
            samples.append(s)
            if p != case["drop_pop"]:
                info.append((s, p))
    if case["bad_sample"]:
        info.append(("GHOST", case["pops"][0]))
    ref_chroms = [c for c in case["chroms"] if c in MAPS] or ["1"]
    variants = [(f"v{c}_{pos}", c, pos, ["A", "C"]) for c in ref_chroms for pos in (120, 250, 450, 700)]
    data = [[((i + j) % 2, (i // 2 + j) % 2, 1) for j in range(len(variants))] for i in range(len(samples))]
    GF.write_vcf_text(d / "ref.vcf", samples, variants, data, contigs=sorted(set(ref_chroms), key=lambda c: 23 if c == "X" else int(c)))
    GF.compress_index(d / "ref.vcf", d / "ref.vcf.gz")
    with open(d / "info.tab", "w") as f:
        f.write(C.text_ending(case, "info.tab", "".join(f"{s}\t{p}\n" for s, p in info)))
    return d, samples, info


def impl(case):
    import haptools.sim_genotype as sg

    d, samples, info = materialise(case)
    mapdir = str(d / "maps") if case["mapdir_ok"] else str(d / "nomaps")
    out = {}
    # "before simulating anything": no random draw has been made when the refusal arrives (recorded on the numpy.random
    # module itself, so that it does not depend on the names of the simulator's private functions)
    with SD.record_random() as rp:
        try:
            popsize = sg.validate_params(str(d / "model.dat"), mapdir, case["chroms"], case["popsize"], str(d / "ref.vcf.gz"), str(d / "info.tab"), case["no_repl"], case["region"], case["only_bp"])
            n, pop_dict, bps = sg.simulate_gt(str(d / "model.dat"), mapdir, case["chroms"], case["region"], popsize, SD.silent_log(), case["seed"])
            bps = sg.write_breakpoints(n, pop_dict, bps, str(d / "out"), SD.silent_log())
            if not case["only_bp"]:
                sg.output_vcf(bps, case["chroms"], str(d / "model.dat"), str(d / "ref.vcf.gz"), str(d / "info.tab"), case["region"], True, True, case["no_repl"], str(d / "out.vcf.gz"), SD.silent_log())
            out = {"accepted": True, "popsize": int(popsize), "haplotypes": len(bps), "tiles": all(_tiles(h, case) for h in bps)}
        except Exception as e:
            reason = None
            if C.deliberate_raise(e):
                for pat, r in MSG2REASON:
                    if re.search(pat, str(e)):
                        reason = r
                        break
            out = {"accepted": False, "reason": reason, "exc": type(e).__name__, "msg": str(e)[:120], "deliberate": C.deliberate_raise(e)}
    out["draws_before_outcome"] = sum(1 for e in rp.log if e[0] != "seed")
    # a --no_replacement run that the simulator itself calls off after it has begun: the panel ran out (C14's topic)
    out["late_no_sample"] = bool(not out.get("accepted") and out.get("deliberate") and case["no_repl"] and out["draws_before_outcome"] > 0)
    return out


def gen_cli(rng, tier):
    """the same inputs through the command line (the glue in __main__.py is part of what the user relies on)"""
    n = 60 if tier == "quick" else 1500
    for case in gen(rng, "thorough"):
        if case["violation"] in ("mapdir", "popsizeNotInt"):
            continue  # click itself refuses a missing directory / a non-integer option value
        yield case
        n -= 1
        if n <= 0:
            return


def impl_cli(case):
    import haptools.sim_genotype as sg
    from click.testing import CliRunner
    from haptools.__main__ import main

    d, samples, info = materialise(case)
    args = ["simgenotype", "--model", str(d / "model.dat"), "--mapdir", str(d / "maps"), "--popsize", str(case["popsize"]), "--seed", str(case["seed"]), "--ref_vcf", str(d / "ref.vcf.gz"), "--sample_info", str(d / "info.tab"), "--pop_field", "--sample_field", "--out", str(d / "out.vcf.gz"), "--verbosity", "CRITICAL"]
    if case["region"]:
        args += ["--region", f"{case['region']['chr']}:{case['region']['start']}-{case['region']['end']}"]
    else:
        args += ["--chroms", ",".join(case["chroms"])]
    if case["no_repl"]:
        args.append("--no_replacement")
    if case["only_bp"]:
        args.append("--only_breakpoint")
    # the call boundary: what the command line hands validate_params, simulate_gt and output_vcf
    import inspect

    seen = {}
    origs = {n: getattr(sg, n) for n in ("validate_params", "simulate_gt", "output_vcf")}

    def wrap(name):
        def w(*a, **k):
            b = inspect.signature(origs[name]).bind(*a, **k)
            b.apply_defaults()
            rec = dict(b.arguments)
            ret = origs[name](*a, **k)
            if name == "validate_params":
                rec["returned"] = ret
            seen[name] = rec
            return ret

        return w

    for n_ in origs:
        setattr(sg, n_, wrap(n_))
    try:
        with SD.record_random() as rp:
            r = CliRunner().invoke(main, args, catch_exceptions=True)
    finally:
        for n_, f_ in origs.items():
            setattr(sg, n_, f_)
    glue = []
    want_region = case["region"]
    want_chroms = [case["region"]["chr"]] if case["region"] else list(case["chroms"])
    for fn, pname, want in (("validate_params", "no_replacement", case["no_repl"]), ("validate_params", "only_bp", case["only_bp"]), ("validate_params", "popsize", case["popsize"]), ("validate_params", "region", want_region), ("validate_params", "chroms", want_chroms), ("simulate_gt", "region", want_region), ("simulate_gt", "chroms", want_chroms), ("simulate_gt", "seed", case["seed"]), ("output_vcf", "no_replacement", case["no_repl"]), ("output_vcf", "pop_field", True), ("output_vcf", "sample_field", True), ("output_vcf", "region", want_region), ("output_vcf", "chroms", want_chroms)):
        if fn in seen and seen[fn].get(pname) != want:
            glue.append(f"{fn}({pname}={seen[fn].get(pname)!r}) although the options mean {want!r}")
    if "validate_params" in seen and "simulate_gt" in seen and seen["simulate_gt"].get("popsize") != seen["validate_params"]["returned"]:
        glue.append(f"simulate_gt(popsize={seen['simulate_gt'].get('popsize')!r}) although validation returned {seen['validate_params']['returned']!r}")
    if r.exit_code == 0 and not case["only_bp"] and "output_vcf" not in seen:
        glue.append("output_vcf was not called although genotypes were requested")
    if r.exit_code == 0:
        heads = [l for l in open(d / "out.bp") if l.startswith("Sample_")] if (d / "out.bp").exists() else []
        from haptools.data import Breakpoints

        tiles = False
        try:
            b = Breakpoints.load(str(d / "out.bp"))
            chroms = [23 if c == "X" else int(c) for c in case["chroms"]]
            tiles = all([int(x["chrom"]) for x in st if int(x["bp"]) == SD.MAX] == chroms and all(int(p["bp"]) < int(q["bp"]) for p, q in zip(st, st[1:]) if p["chrom"] == q["chrom"]) for v in b.data.values() for st in v)
        except Exception:  # noqa
            pass
        out = {"accepted": True, "popsize": seen.get("simulate_gt", {}).get("popsize", -1), "haplotypes": len(heads), "tiles": tiles}
    else:
        e = r.exception
        reason = None
        if e is not None and C.deliberate_raise(e):
            for pat, rs in MSG2REASON:
                if re.search(pat, str(e)):
                    reason = rs
                    break
        out = {"accepted": False, "reason": reason, "exc": type(e).__name__, "msg": str(e)[:120], "deliberate": e is not None and C.deliberate_raise(e)}
    draws = sum(1 for e in rp.log if e[0] != "seed")
    out["late_no_sample"] = bool(not out["accepted"] and out.get("deliberate") and case["no_repl"] and draws > 0)
    out["draws_before_outcome"] = draws if not out["accepted"] else 0
    out["glue"] = "; ".join(glue) or None
    return out


def _tiles(h, case):
    chroms = [23 if c == "X" else int(c) for c in case["chroms"]]
    k = 0
    for c in chroms:
        prev = -1
        while True:
            if k >= len(h) or h[k].get_chrom() != c or h[k].get_end_coord() <= prev:
                return False
            prev = h[k].get_end_coord()
            k += 1
            if prev == SD.MAX:
                break
    return k == len(h)


def tok_int(t):
    try:
        return int(t)
    except ValueError:
        return None


def tok_frac(ts):
    out = []
    for t in ts:
        try:
            float(t)
            out.append([Fraction(t).numerator, Fraction(t).denominator])
        except ValueError:
            return None
    return out


def model_req(case):
    d, samples, info = materialise(case)
    mapdir = d / "maps" if case["mapdir_ok"] else d / "nomaps"
    files = [f for f in glob.glob(f"{mapdir}/*.map") if re.search(r"(?<=chr)(X|\d+)", f) and re.search(r"(?<=chr)(X|\d+)", f).group() in case["chroms"]]
    lfc = []
    for f in sorted(files):
        lfc += [len(l.split()) for l in open(f)]
    ps = case["popsize"]
    return {
        "op": "validate",
        "nSamples": tok_int(case["nsamp"]),
        "pops": ["Admixed"] + case["pops"],
        "gens": [{"gen": tok_int(l[0]), "fracs": tok_frac(l[1:])} for l in case["lines"]],
        "mapdirIsDir": os.path.isdir(mapdir),
        "chroms": case["chroms"],
        "mapFilesFound": len(files),
        "popsize": ps if isinstance(ps, int) else None,
        "onlyBp": case["only_bp"],
        "region": None if not case["region"] else [case["region"]["start"], case["region"]["end"]],
        "vcfSamples": samples,
        "sampleInfo": [list(x) for x in info],
        "noReplacement": case["no_repl"],
        "lineFieldCounts": lfc,
    }


def model_obs(case, resp):
    if "ok" in resp:
        return {"accepted": True, "popsize": resp["ok"]}
    return {"accepted": False, "reason": resp["error"]}


def equal(a, b):
    a, b = C.canon(a), C.canon(b)
    if "error" in a or "error" in b:
        return False
    if a["accepted"] != b["accepted"]:
        # a panel that validation accepted but that runs out of material later is C14's topic, not a rejection
        return bool(a.get("late_no_sample")) and b["accepted"]
    if a["accepted"]:
        return a["popsize"] == b["popsize"]
    if a["reason"] is None and a.get("deliberate") and a.get("msg"):
        return True  # refused with an explanation in a wording the harness does not know: which requirement it names is not compared
    return a["reason"] == b["reason"]


def oracle(case, obs):
    if "error" in obs:
        return f"harness could not run the case: {obs}"
    if obs.get("glue"):
        return f"the command line does not hand the simulation the parameters it was given: {obs['glue']}"
    v = case["violation"]
    if v is None:
        if not obs["accepted"]:
            if obs.get("late_no_sample"):
                return None  # randomly exhausted panel with --no_replacement (C14): not an input defect
            return f"a well-formed input was refused: {obs['exc']}: {obs['msg']}"
        n = int(case["nsamp"])
        if obs["popsize"] < 10 * n or obs["popsize"] < (case["popsize"] if isinstance(case["popsize"], int) else 0):
            return f"effective population size {obs['popsize']} for {n} samples"
        if obs["haplotypes"] != 2 * n or not obs["tiles"]:
            return f"accepted input did not simulate to a complete, tiled result ({obs['haplotypes']} haplotypes, tiles={obs['tiles']})"
        return None
    if obs["accepted"]:
        return f"input violating requirement '{v}' was accepted and simulated"
    if obs["draws_before_outcome"] > 0:
        return f"input violating '{v}' was only refused after the simulation had begun ({obs['draws_before_outcome']} random draws had been made) ({obs['exc']}: {obs['msg']})"
    if not obs.get("deliberate") or not obs["msg"]:
        return f"input violating '{v}' failed with {obs['exc']}: {obs['msg']!r} (an accident below the validation, not a refusal worded by simgenotype) instead of an explanatory error"
    return None


def describe(case, obs):
    return [f"violation={case['violation']}", "only_bp" if case["only_bp"] else "full", "sep=" + repr(case["sep"])]


CHECK = Check(
    id="C20",
    title="simgenotype rejects malformed inputs up front and completes on well-formed ones",
    theorems=["C20.accepted_iff", "C20.rejects_noninteger_samples", "C20.rejects_samples_lt_one", "C20.rejects_few_populations", "C20.rejects_bad_generation_line", "C20.rejects_unknown_chromosome", "C20.rejects_missing_map", "C20.rejects_malformed_map_line", "C20.rejects_nonpositive_popsize", "C20.rejects_inverted_region", "C20.rejects_sample_absent_from_reference", "C20.rejects_population_without_samples", "C20.effective_popsize", "C20.accepts_wellformed", "C20.completes_partial"],
    sections=[
        Section(
            name="validate_and_simulate",
            theorems=["C20.accepted_iff", "C20.effective_popsize", "C20.accepts_wellformed"],
            gen=gen,
            impl=impl,
            model_req=model_req,
            model_obs=model_obs,
            equal=equal,
            oracle=oracle,
            describe=describe,
            setup=setup,
            teardown=teardown,
            nontrivial=lambda c, o: C.jdump(c),
            rule="inputs derived from a well-formed base (1-4 samples, 2-3 source populations, 1-4 generation lines, 1-4 chromosomes incl. X, any whitespace separation, optional region, with/without --only_breakpoint and --no_replacement): 3 of every 21 cases are well-formed, each of the other 18 violates exactly one documented requirement by a clear margin (in the header or in a randomly chosen generation line / map / sample-info line); validate_params + simulate_gt + write_breakpoints (+ output_vcf) are run with the requests to numpy's generator recorded (a refusal must come before the first draw), refusals are mapped from their message to a reason enum and compared with the Lean pipeline on the tokenised input",
        ),
        Section(
            name="command_line",
            theorems=["C20.accepted_iff", "C20.effective_popsize", "C20.accepts_wellformed"],
            gen=gen_cli,
            impl=impl_cli,
            model_req=model_req,
            model_obs=model_obs,
            equal=equal,
            oracle=oracle,
            describe=describe,
            setup=setup,
            teardown=teardown,
            nontrivial=lambda c, o: C.jdump(c),
            rule="the same generator through `haptools simgenotype` (click CliRunner: --model/--mapdir/--chroms or --region/--popsize/--seed/--ref_vcf/--sample_info/--no_replacement/--only_breakpoint): exit status, the refusal's message mapped to the reason enum, the population size simulate_gt is called with, the haplotype count and tiling of the written .bp file – compared with the same Lean pipeline; validate_params, simulate_gt and output_vcf are wrapped while the command runs and the arguments they receive (no_replacement, only_bp, popsize, region, chroms, seed, POP/SAMPLE flags, the validated population size) are compared with what the options mean, so that the option glue of __main__.py is covered as well",
        ),
        Section(
            name="simgenotype_as_typed_in_a_shell",
            theorems=["C20.accepts_wellformed", "C20.completes_partial"],
            gen=c19b.gen_simgt_shell,
            impl=lambda case: c19b.impl_simgt_shell(case, _dir),
            oracle=c19b.oracle_simgt_shell,
            describe=lambda c, o: ["out=" + c["out"], "pop_field" if c["pop"] else "no-pop_field", "sample_field" if c["sample"] else "no-sample_field"],
            setup=setup,
            teardown=teardown,
            nontrivial=lambda c, o: C.jdump(c),
            rule="`python -m haptools simgenotype` as a process of its own in a working directory whose name holds a blank, every input by relative path, --out a bare name, an upper-case spelling (SIM.VCF), a compressed or BCF name with a blank, a nested and a dotted name, with and without --pop_field / --sample_field: exit status 0, the named file exists, breakpoints and genotypes with their POP / SAMPLE annotations equal what validate_params + simulate_gt + write_breakpoints + output_vcf write for the same inputs, seed and flags",
        ),
    ],
    trusted=["int()/float() token conversion as mirrored by the harness tokeniser", "glob/regex map-file discovery (the harness counts matching files with the same pattern)", "np.float32 sum of fractions agrees with the exact decimal sum to within the 1e-6 tolerance when the violation is >= 1e-3 (clear margin)"],
    assumptions=["malformed inputs violate exactly one requirement by a clear margin; well-formed ones satisfy all with margin (as quantified in the property)"],
    anchors=[("haptools/__main__.py", ["simgenotype"]), ("haptools/sim_genotype.py", ["validate_params", "_prepare_coords", "simulate_gt"])],
)
