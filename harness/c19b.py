"""C19, the command line as a function: click's option tables read off `haptools/__main__.py`, argument vectors in
random mixtures of short and long spellings, and the list files of --samples-file / --ids-file, against the Lean
model `CliParse` (driver ops `cliParse`, `splitLines`)."""
from __future__ import annotations

import importlib
import inspect
from pathlib import Path

from . import common as C

_dir = None
ENTRY = {
    "transform": ("haptools.transform", "transform_haps", "haplotype_ids"),
    "simphenotype": ("haptools.sim_phenotype", "simulate_pt", "haplotype_ids"),
    "ld": ("haptools.ld", "calc_ld", "ids"),
}
ORDERED_IDS = {"ld"}  # ld hands its IDs over as a tuple (order kept), the others as a set
COMMANDS = ["transform", "simphenotype", "ld", "index", "clump", "simgenotype", "karyogram"]

# texts of list files: (name, bytes)
LIST_FILES = [
    ("l_plain.txt", "s0\ns3\ntwin A\n"),
    ("l_nofinal.txt", "s1\nhapB\nnosuchID"),
    ("l_crlf.txt", "s2\r\ns4\r\nhapA\r\n"),
    ("l_dups.txt", "hapA\nhapA\n\nhapC\nhapA\n"),
    ("l_empty.txt", ""),
    ("l_blank.txt", "\n"),
    ("l_exotic.txt", "a\x0cb\ns0\nc d\ne\x85f\ng\x1ch\x1di\x1ej\nk\x0bl\n"),
    ("l_cr.txt", "s0\rs1\r\rs2"),
    ("l_spaces.txt", " s0\ns1 \n\ttwin A\n"),
]


def setup():
    global _dir
    _dir = C.scratch_dir("c19b")
    for name, text in LIST_FILES:
        with open(_dir / name, "w", newline="", encoding="utf-8") as f:
            f.write(text)
    # something that exists for every Path(exists=True) / positional
    for name in ("g.vcf", "h.hap", "stats.txt", "k.bp"):
        (_dir / name).write_text("x\n")
    (_dir / "maps").mkdir()
    return _dir


def teardown(_):
    C.rm_tree(_dir)


def _cmd(name):
    from haptools.__main__ import main

    return main.commands[name]


def table_of(name):
    """click's declarations → rows of the Lean table (+ the positional parameters in order)"""
    import click

    cmd = _cmd(name)
    rows, pos = [], []
    for p in cmd.params:
        if isinstance(p, click.Option):
            kind = "flag" if p.is_flag else ("multi" if p.multiple else "value")
            rows.append({"param": p.name, "kind": kind, "on": list(p.opts), "off": list(p.secondary_opts)})
        else:
            pos.append(p.name)
    ctx = click.Context(cmd)
    rows.append({"param": "help", "kind": "flag", "on": list(cmd.get_help_option_names(ctx)), "off": []})
    return rows, pos


def _value_for(rng, p):
    import click

    t = p.type
    tn = type(t).__name__
    if tn == "IntRange":
        return str(rng.randint(1, 9))
    if tn == "IntParamType":
        return str(rng.choice([0, 1, 3, 17, 42, -5, 2**31]))
    if tn == "FloatRange":
        return rng.choice(["0.25", "0.5", "0.75"])
    if tn == "FloatParamType":
        return rng.choice(["0.05", "1e-3", "0.5", "2", "-0.5", "250"])
    if isinstance(t, click.Choice):
        return rng.choice(list(t.choices))
    if tn == "File":
        return str(_dir / rng.choice(LIST_FILES)[0])
    if tn == "Path":
        if getattr(t, "exists", False):
            if not getattr(t, "file_okay", True):
                return str(_dir / "maps")
            return str(_dir / rng.choice(["g.vcf", "h.hap", "stats.txt"]))
        return str(_dir / rng.choice(["out.a", "out.b"]))
    # plain strings: anything goes, a value is never taken for an option
    return rng.choice(["x", "1:10-20", "-weird", "--sample", "a b", "Sample_1", "hapA", "twin A", "-s", "--", "snpB", ""])


def _pos_value(rng, p):
    tn = type(p.type).__name__
    if tn == "Path":
        return str(_dir / rng.choice(["g.vcf", "h.hap"]))
    return rng.choice(["hapA", "snpB", "-", "x y"])


def gen_parse(rng, tier):
    import click

    n = 160 if tier == "quick" else 3000
    for t in range(n):
        name = COMMANDS[t % len(COMMANDS)]
        cmd = _cmd(name)
        opts = [p for p in cmd.params if isinstance(p, click.Option)]
        args_ = [p for p in cmd.params if isinstance(p, click.Argument)]
        items = []  # [kind, param, token, value]
        for p in opts:
            if p.required or rng.random() < 0.35:
                reps = 1
                if p.multiple:
                    reps = rng.randint(1, 4)
                elif rng.random() < 0.15:
                    reps = 2  # a single-valued option given twice: the last one wins
                for _ in range(reps):
                    if p.is_flag:
                        tok = rng.choice(list(p.opts) + list(p.secondary_opts))
                        items.append(["flag", p.name, tok, None])
                    else:
                        items.append(["opt", p.name, rng.choice(list(p.opts)), _value_for(rng, p)])
        # sample selection in both forms at once is a usage error of the command, not of the parser: keep it rare
        if name in ENTRY and rng.random() < 0.8:
            has_file = any(i[1] == "samples_file" for i in items)
            if has_file:
                items = [i for i in items if i[1] != "samples"]
        rng.shuffle(items)
        for p in args_:
            items.insert(rng.randrange(len(items) + 1), ["pos", p.name, None, _pos_value(rng, p)])
        # positionals must keep their declared order
        pvals = [i for i in items if i[0] == "pos"]
        order = [p.name for p in args_]
        pvals.sort(key=lambda i: order.index(i[1]))
        it = iter(pvals)
        items = [next(it) if i[0] == "pos" else i for i in items]
        bad = None
        r = rng.random()
        if r < 0.08:
            bad = ["unknown", rng.choice(["--nosuch", "-Z", "--sampl", "--sample-file", "-q", "--Region"]), rng.randrange(len(items) + 1)]
        elif r < 0.14:
            cands = [p for p in opts if not p.is_flag]
            p = rng.choice(cands)
            bad = ["truncated", rng.choice(list(p.opts)), p.name]
        elif r < 0.18 and args_:
            bad = ["extra_positional", "one-too-many", None]
        elif r < 0.22 and args_:
            bad = ["missing_positional", None, None]
        yield {"cmd": name, "items": items, "bad": bad}
    # a fixed share: both forms of sample selection at once, for every command that takes them and every list file (the empty
    # one and the blank one included), in either order
    for name in sorted(ENTRY):
        cmd = _cmd(name)
        opts = [p for p in cmd.params if isinstance(p, click.Option)]
        args_ = [p for p in cmd.params if isinstance(p, click.Argument)]
        ps = {p.name: p for p in opts}
        if "samples" not in ps or "samples_file" not in ps:
            continue
        for k, (fn, _) in enumerate(LIST_FILES):
            items = [["opt", p.name, list(p.opts)[0], _value_for(rng, p)] for p in opts if p.required]
            two = [["opt", "samples", list(ps["samples"].opts)[k % len(ps["samples"].opts)], "s0"], ["opt", "samples_file", list(ps["samples_file"].opts)[(k // 2) % len(ps["samples_file"].opts)], str(_dir / fn)]]
            items += two if k % 2 == 0 else two[::-1]
            items += [["pos", p.name, None, _pos_value(rng, p)] for p in args_]
            yield {"cmd": name, "items": items, "bad": None}


def _args_of(case):
    args = []
    items = list(case["items"])
    bad = case["bad"]
    if bad and bad[0] == "missing_positional":
        last = max(i for i, it in enumerate(items) if it[0] == "pos")
        del items[last]
    for k, (kind, _, tok, v) in enumerate(items):
        if bad and bad[0] == "unknown" and bad[2] == k:
            args.append(bad[1])
        if kind == "opt":
            args += [tok, v]
        elif kind == "flag":
            args.append(tok)
        else:
            args.append(v)
    if bad and bad[0] == "unknown" and bad[2] >= len(items):
        args.append(bad[1])
    if bad and bad[0] == "truncated":
        args.append(bad[1])
    if bad and bad[0] == "extra_positional":
        args.append(bad[1])
    return args


def _canon(v):
    if v is None or isinstance(v, (bool, int, str)):
        return v
    if isinstance(v, float):
        return repr(float(v))
    if isinstance(v, Path):
        return str(v)
    if isinstance(v, (set, frozenset)):
        return {"set": sorted(map(str, v))}
    if isinstance(v, (list, tuple)):
        return {"seq": [str(x) for x in v]}
    if hasattr(v, "name"):
        return str(v.name)  # an (unopened or opened) file
    return repr(v)


def _defaults(name):
    """what the parameters are when only the required ones are given"""
    import click

    cmd = _cmd(name)
    args = []
    for p in cmd.params:
        if isinstance(p, click.Argument):
            args.append(str(_dir / "g.vcf"))
        elif p.required:
            args += [p.opts[0], str(_dir / "g.vcf") if type(p.type).__name__ != "Path" or getattr(p.type, "file_okay", True) else str(_dir / "maps")]
    ctx = cmd.make_context(name, args)
    try:
        return {k: _canon(v) for k, v in ctx.params.items()}
    finally:
        ctx.close()


def impl_parse(case):
    import click
    from click.testing import CliRunner
    from haptools.__main__ import main

    name = case["cmd"]
    cmd = _cmd(name)
    args = _args_of(case)
    obs = {"error": None}
    try:
        ctx = cmd.make_context(name, list(args))
    except click.NoSuchOption as e:
        return {"error": ["no_such_option", e.option_name]}
    except click.BadOptionUsage as e:
        tok = e.option_name
        rows, _ = table_of(name)
        par = [r["param"] for r in rows if tok in r["on"] + r["off"]]
        return {"error": ["missing_value", par[0] if par else tok]}
    except click.MissingParameter as e:
        return {"error": ["missing_parameter", e.param.name if e.param else None]}
    except click.UsageError as e:
        return {"error": ["usage", str(e.message)[:60]]}
    try:
        obs["params"] = {k: _canon(v) for k, v in ctx.params.items()}
    finally:
        ctx.close()
    if name in ENTRY:
        # what the entry point receives (it is replaced by a recorder while the command runs)
        modname, fname, idname = ENTRY[name]
        mod = importlib.import_module(modname)
        orig = getattr(mod, fname)
        calls = []

        def rec(*a, **k):
            b = inspect.signature(orig).bind(*a, **k)
            b.apply_defaults()
            calls.append(dict(b.arguments))

        setattr(mod, fname, rec)
        try:
            r = CliRunner().invoke(main, [name] + args, catch_exceptions=True)
        finally:
            setattr(mod, fname, orig)
        if r.exit_code == 2 and not calls:
            obs["samples"] = obs["ids"] = "usage_error"
        elif len(calls) != 1:
            obs["samples"] = obs["ids"] = f"entry point called {len(calls)} times, exit {r.exit_code} ({r.exception!r})"
        else:
            obs["samples"] = _canon(calls[0]["samples"])
            ids_ = calls[0][idname]
            # ld lists every requested ID once, in the order of first mention: repeats may already be dropped at this boundary
            obs["ids"] = _canon(tuple(dict.fromkeys(ids_)) if name in ORDERED_IDS and ids_ is not None else ids_)
            # every other parameter reaches the entry point as parsed
            glue = {}
            for k, v in calls[0].items():
                if k in ("samples", idname, "log") or k not in ctx.params:
                    continue
                if _canon(v) != obs["params"].get(k):
                    glue[k] = [_canon(v), obs["params"].get(k)]
            obs["glue"] = glue
    return obs


def _conv(p, v):
    tn = type(p.type).__name__
    if tn in ("IntRange", "IntParamType"):
        return int(v)
    if tn in ("FloatRange", "FloatParamType"):
        return repr(float(v))
    return v


def model_req_parse(case):
    rows, _ = table_of(case["cmd"])
    files = [[str(_dir / n), t] for n, t in LIST_FILES]
    return {"op": "cliParse", "table": rows, "args": _args_of(case), "files": files}


def model_obs_parse(case, resp):
    import click

    name = case["cmd"]
    if not resp.get("tableOK"):
        return {"error": ["table_ambiguous"]}
    if resp["error"] is not None:
        return {"error": resp["error"]}
    cmd = _cmd(name)
    _, posnames = table_of(name)
    if len(resp["pos"]) < len(posnames):
        return {"error": ["missing_parameter", posnames[len(resp["pos"])]]}
    if len(resp["pos"]) > len(posnames):
        return {"error": ["usage", "Got unexpected extra argument"]}
    dflt = _defaults(name)
    byname = {p.name: p for p in cmd.params}
    params = {}
    for pname, v in resp["params"]:
        if pname == "help":
            continue
        p = byname[pname]
        if p.is_flag:
            params[pname] = dflt[pname] if v is None else v
        elif p.multiple:
            params[pname] = {"seq": list(v)} if v else dflt[pname]
        else:
            params[pname] = dflt[pname] if v is None else _conv(p, v)
    for pn, v in zip(posnames, resp["pos"]):
        params[pn] = v
    obs = {"error": None, "params": params}
    if name in ENTRY:
        if resp["samples"] == "usage_error":
            obs["samples"] = obs["ids"] = "usage_error"
        else:
            s, i = resp["samples"], resp["ids"]
            obs["samples"] = None if s is None else {"set": sorted(set(s))}
            obs["ids"] = None if i is None else ({"seq": list(dict.fromkeys(i))} if name in ORDERED_IDS else {"set": sorted(set(i))})
            obs["glue"] = {}
    return obs


def equal_parse(a, b):
    a, b = dict(a), dict(b)
    if a.get("error") and b.get("error"):
        ea, eb = a["error"], b["error"]
        if ea[0] != eb[0]:
            return False
        return ea[0] in ("usage",) or ea[1] == eb[1]
    return C.canon(a) == C.canon(b)


def oracle_parse(case, obs):
    """the meaning of the items, computed without the model: the last value of a single-valued option, all values of a
    repeatable one in order, the last spelling of a flag"""
    import click

    if case["bad"]:
        kind = case["bad"][0]
        want = {"unknown": "no_such_option", "truncated": "missing_value", "extra_positional": "usage", "missing_positional": "missing_parameter"}[kind]
        if not obs.get("error") or obs["error"][0] != want:
            return f"{case['cmd']} {_args_of(case)}: expected the usage error {want}, observed {obs.get('error') or 'a successful parse'}"
        return None
    if obs.get("error"):
        return f"{case['cmd']} {_args_of(case)}: a well-formed command line was rejected: {obs['error']}"
    name = case["cmd"]
    cmd = _cmd(name)
    byname = {p.name: p for p in cmd.params}
    dflt = _defaults(name)
    want = dict(dflt)
    multi = {}
    for kind, pname, tok, v in case["items"]:
        p = byname[pname]
        if kind == "pos":
            want[pname] = v
        elif kind == "flag":
            want[pname] = tok in p.opts
        elif p.multiple:
            multi.setdefault(pname, []).append(v)
        else:
            want[pname] = _conv(p, v)
    for k, l in multi.items():
        want[k] = {"seq": l}
    for k, w in want.items():
        if obs["params"].get(k) != w:
            return f"{name} {_args_of(case)}: parameter {k} is {obs['params'].get(k)!r}, the options given mean {w!r}"
    if name in ENTRY:
        if obs.get("glue"):
            return f"{name} {_args_of(case)}: the entry point does not receive the parsed parameters: {obs['glue']}"
        texts = {str(_dir / n): t for n, t in LIST_FILES}

        def lines(path):
            # one name per line; "\r\n" and "\r" end a line as well (universal newlines), nothing else does
            t = texts[path].replace("\r\n", "\n").replace("\r", "\n")
            ls = t.split("\n")
            if ls and ls[-1] == "":
                ls.pop()
            return ls

        sf, idf = want.get("samples_file"), want.get("ids_file")
        smp = (multi.get("samples") or None)
        if sf is not None and smp:
            if obs["samples"] != "usage_error":
                return f"{name} {_args_of(case)}: both --sample and --samples-file were given, yet no usage error"
            return None
        if obs["samples"] == "usage_error":
            return f"{name} {_args_of(case)}: rejected as a usage error although only one form of sample selection was given"
        ws = lines(sf) if sf is not None else smp
        wi = lines(idf) if idf is not None else (multi.get("ids") or None)
        ws = None if ws is None else {"set": sorted(set(ws))}
        wi = None if wi is None else ({"seq": list(dict.fromkeys(wi))} if name in ORDERED_IDS else {"set": sorted(set(wi))})
        if obs["samples"] != ws:
            return f"{name} {_args_of(case)}: the entry point receives the samples {obs['samples']!r}, the options given mean {ws!r}"
        if obs["ids"] != wi:
            return f"{name} {_args_of(case)}: the entry point receives the IDs {obs['ids']!r}, the options given mean {wi!r}"
    return None


def describe_parse(case, obs):
    tags = [case["cmd"]]
    if case["bad"]:
        tags.append("malformed:" + case["bad"][0])
    toks = [i[2] for i in case["items"] if i[2]]
    if any(len(t) == 2 for t in toks):
        tags.append("short-spelling")
    if any(len(t) > 2 for t in toks):
        tags.append("long-spelling")
    names = [i[1] for i in case["items"] if i[0] == "opt"]
    if len(set(names)) < len(names):
        tags.append("repeated-option")
    if any(i[0] == "opt" and i[3].startswith("-") for i in case["items"]):
        tags.append("value-looks-like-option")
    if any(i[1] in ("samples_file", "ids_file") for i in case["items"]):
        tags.append("list-file")
    return tags


def variants_parse(case):
    # drop one item at a time (required options and positionals stay)
    import click

    cmd = _cmd(case["cmd"])
    req = {p.name for p in cmd.params if isinstance(p, click.Argument) or p.required}
    for k, it in enumerate(case["items"]):
        if it[1] in req:
            continue
        yield dict(case, items=case["items"][:k] + case["items"][k + 1 :])


# ---------------------------------------------------------------------------------------------------------------------
# list files
# ---------------------------------------------------------------------------------------------------------------------

ALPHABET = ["a", "b", "s0", "hapA", " ", "\t", "\n", "\n", "\n", "\r\n", "\r", "\x0b", "\x0c", "\x1c", "\x1d", "\x1e", "\x85", " ", " ", "é", "#"]


def gen_lines(rng, tier):
    n = 120 if tier == "quick" else 2500
    for name, text in LIST_FILES:
        yield {"text": text, "via": "ld"}
        yield {"text": text, "via": "transform"}
    for t in range(n):
        k = rng.randint(0, 12)
        text = "".join(rng.choice(ALPHABET) for _ in range(k))
        if rng.random() < 0.5 and text and not text.endswith("\n"):
            text += "\n"
        yield {"text": text, "via": rng.choice(["ld", "ld", "transform", "simphenotype"])}


def impl_lines(case):
    from click.testing import CliRunner
    from haptools.__main__ import main

    f = _dir / "case.txt"
    with open(f, "w", newline="", encoding="utf-8") as fh:
        fh.write(case["text"])
    via = case["via"]
    modname, fname, idname = ENTRY[via]
    mod = importlib.import_module(modname)
    orig = getattr(mod, fname)
    calls = []

    def rec(*a, **k):
        b = inspect.signature(orig).bind(*a, **k)
        b.apply_defaults()
        calls.append(dict(b.arguments))

    pos = {"transform": [_dir / "g.vcf", _dir / "h.hap"], "simphenotype": [_dir / "g.vcf", _dir / "h.hap"], "ld": ["hapA", _dir / "g.vcf", _dir / "h.hap"]}[via]
    setattr(mod, fname, rec)
    try:
        r = CliRunner().invoke(main, [via, "--ids-file", str(f), "-S", str(f)] + [str(p) for p in pos], catch_exceptions=True)
    finally:
        setattr(mod, fname, orig)
    if len(calls) != 1:
        return {"error": f"entry point called {len(calls)} times, exit {r.exit_code} ({r.exception!r})"}
    ids = calls[0][idname]
    smp = calls[0]["samples"]
    return {"ids": list(dict.fromkeys(ids)) if via == "ld" else sorted(ids), "samples": sorted(smp), "py": case["text"].splitlines()}


def model_req_lines(case):
    return {"op": "splitLines", "text": case["text"]}


def model_obs_lines(case, resp):
    ls = resp["lines"]
    return {"ids": list(dict.fromkeys(ls)) if case["via"] == "ld" else sorted(set(ls)), "samples": sorted(set(ls)), "py": resp["py"]}


def oracle_lines(case, obs):
    if "error" in obs:
        return f"list file {case['text']!r}: {obs['error']}"
    t = case["text"].replace("\r\n", "\n").replace("\r", "\n")
    ls = t.split("\n")
    if ls and ls[-1] == "":
        ls.pop()
    want = list(dict.fromkeys(ls)) if case["via"] == "ld" else sorted(set(ls))
    if obs["ids"] != want:
        return f"{case['via']} --ids-file with the text {case['text']!r} hands over {obs['ids']!r}; one name per line is {want!r}, which is what repeating --id with these names hands over"
    if obs["samples"] != sorted(set(ls)):
        return f"{case['via']} --samples-file with the text {case['text']!r} hands over {obs['samples']!r}; one name per line is {sorted(set(ls))!r}"
    return None


def describe_lines(case, obs):
    t = case["text"]
    tags = [case["via"]]
    if t == "":
        tags.append("empty-file")
    if "\r" in t:
        tags.append("carriage-return")
    if any(c in t for c in "\x0b\x0c\x1c\x1d\x1e\x85  "):
        tags.append("other-separator-in-name")
    if t and not t.endswith("\n"):
        tags.append("no-final-newline")
    if "\n\n" in t or t.startswith("\n"):
        tags.append("empty-name")
    return tags


# ---------------------------------------------------------------------------------------------------------------------
# the commands as a user types them: a real process, relative paths, no --output (the documented default is standard output)
# ---------------------------------------------------------------------------------------------------------------------

_shell_dir = None


def setup_shell():
    global _shell_dir
    from . import c19

    _shell_dir = c19.setup()  # the fixtures of cli_vs_api (g.vcf.gz, g.pgen, h.hap, hb.hap)
    return _shell_dir


def teardown_shell(_):
    from . import c19

    c19.teardown(_)


def gen_shell(rng, tier):
    from . import c19

    n = 6 if tier == "quick" else 30
    for t in range(n):
        cmd = ["transform", "simphenotype", "ld"][t % 3]
        ids = rng.sample(c19.HAPS[:3], rng.randint(1, 3)) if rng.random() < 0.6 else None
        smp = rng.sample(c19.SAMPLES, rng.randint(2, len(c19.SAMPLES))) if rng.random() < 0.6 else None
        yield {"cmd": cmd, "ids": ids, "samples": smp, "pgen": rng.random() < 0.3, "cwd": ["data dir", "sub"][t % 2], "stdout": t % 3 != 2 or rng.random() < 0.5, "target": "hapA", "from_gts": rng.random() < 0.5}


def impl_shell(case):
    """`python -m haptools <cmd> …` in a process of its own, started in a working directory whose name holds a blank (or in a
    subdirectory, the inputs then being ../…), every path relative, output to standard output unless a relative -o is given;
    beside it the Python entry point in this process with absolute paths"""
    import os
    import subprocess
    import sys

    d = _shell_dir
    cwd = d / case["cwd"]
    cwd.mkdir(exist_ok=True)
    rel = lambda p: os.path.relpath(p, cwd)
    gf = d / ("g.pgen" if case["pgen"] else "g.vcf.gz")
    cmd = case["cmd"]
    hf = d / ("hb.hap" if cmd == "simphenotype" else "h.hap")
    if cmd == "simphenotype":
        gf = d / ("pg.pgen" if case["pgen"] else "pg.vcf.gz")  # the haplotypes' pseudo-genotypes
    ids = case["ids"]
    if cmd == "ld" and ids:
        ids = [i for i in ids if i != case["target"]] or None
    args = [cmd]
    if cmd == "simphenotype":
        args += ["--seed", "5", "-r", "2", "-h", "0.5"]
    if cmd == "ld" and case["from_gts"]:
        args += ["--from-gts"]
        ids = None
    for i in ids or []:
        args += ["--id", i]
    for s in case["samples"] or []:
        args += ["--sample", s]
    ext = {"transform": ".vcf", "simphenotype": ".pheno", "ld": ".ld" if case["from_gts"] else ".hap"}[cmd]
    out_rel = None
    if not case["stdout"]:
        out_rel = "shell out" + ext
        args += ["-o", out_rel]
    if cmd == "ld":
        args += [case["target"]]
    args += [rel(gf), rel(hf)]
    env = dict(os.environ, PYTHONPATH=str(C.REPO), PYTHONDONTWRITEBYTECODE="1")
    r = subprocess.run([sys.executable, "-m", "haptools"] + args, cwd=cwd, env=env, capture_output=True, text=True, timeout=300)
    got = r.stdout if case["stdout"] else (open(cwd / out_rel).read() if (cwd / out_rel).exists() else None)
    # the Python entry point with the same parameters
    api_out = d / ("api_out" + ext)
    if api_out.exists():
        api_out.unlink()
    from . import simdata as SD

    if cmd == "transform":
        from haptools.transform import transform_haps

        api = C.guarded(lambda: transform_haps(gf, hf, samples=set(case["samples"]) if case["samples"] else None, haplotype_ids=set(ids) if ids else None, output=api_out, log=SD.silent_log()) and None)
    elif cmd == "simphenotype":
        from haptools.sim_phenotype import simulate_pt

        api = C.guarded(lambda: simulate_pt(gf, hf, num_replications=2, heritability=0.5, samples=set(case["samples"]) if case["samples"] else None, haplotype_ids=set(ids) if ids else None, seed=5, output=api_out, log=SD.silent_log()))
    else:
        from haptools.ld import calc_ld

        api = C.guarded(lambda: calc_ld(case["target"], gf, hf, samples=set(case["samples"]) if case["samples"] else None, ids=tuple(ids) if ids else None, from_gts=case["from_gts"], output=api_out, log=SD.silent_log()))
    want = open(api_out).read() if api_out.exists() else None
    body = lambda t: None if t is None else [l for l in t.splitlines() if not l.startswith("##")]
    return {"exit": r.returncode, "cli": body(got), "api": body(want), "api_error": api if isinstance(api, dict) and "error" in api else None, "stderr_tail": r.stderr[-300:] if r.returncode else ""}


def oracle_shell(case, obs):
    if "error" in obs:
        return f"harness could not run the case: {obs}"
    what = f"`haptools {case['cmd']}` run from the directory {case['cwd']!r} with relative paths and output to {'standard output' if case['stdout'] else 'a relative -o path'}"
    if obs["api_error"]:
        if obs["exit"] == 0:
            return f"{what} exited with status 0 although the Python entry point fails ({obs['api_error']})"
        return None
    if obs["exit"] != 0:
        return f"{what} exited with status {obs['exit']} although the Python entry point succeeds: {obs['stderr_tail']}"
    if obs["cli"] != obs["api"]:
        return f"{what} wrote {str(obs['cli'])[:300]}; the Python entry point with the same parameters writes {str(obs['api'])[:300]}"
    return None


# ---------------------------------------------------------------------------------------------------------------------
# simgenotype as typed in a shell: relative paths, --out as a bare or oddly spelled name in the working directory
# ---------------------------------------------------------------------------------------------------------------------

OUT_NAMES = ["sim.vcf", "SIM.VCF", "sim.vcf.gz", "my sim.bcf", "out/sim.vcf", "sim.chr1.vcf"]


def gen_simgt_shell(rng, tier):
    n = len(OUT_NAMES) if tier == "quick" else 18
    for t in range(n):
        yield {"inputs": rng.randrange(2**31), "seed": rng.choice([0, 7, 12345]), "out": OUT_NAMES[t % len(OUT_NAMES)], "pop": t % 2 == 1 or rng.random() < 0.6, "sample": rng.random() < 0.6}


def _read_sim_vcf(path):
    import pysam

    vf = pysam.VariantFile(str(path))
    samples = list(vf.header.samples)
    recs = []
    for r in vf:
        recs.append([r.chrom, r.pos, r.id, [list(r.samples[s]["GT"]) for s in samples], [list(r.samples[s]["POP"]) if "POP" in r.format else None for s in samples], [list(r.samples[s]["SAMPLE"]) if "SAMPLE" in r.format else None for s in samples]])
    return {"samples": samples, "records": recs}


def impl_simgt_shell(case, scratch):
    """`python -m haptools simgenotype …` in a process of its own, working directory with a blank in its name, inputs by relative
    path, --out a bare / upper-case / nested / dotted name; beside it the Python entry points with absolute paths and the same seed"""
    import os
    import subprocess
    import sys

    import haptools.sim_genotype as sg

    from . import c10
    from . import simdata as SD

    d = scratch / "simgt shell"
    C.rm_tree(d)
    (d / "work dir" / "out").mkdir(parents=True)
    c10.make_inputs(d / "sim", case["inputs"])
    cwd = d / "work dir"
    s = d / "sim"
    rel = lambda p: os.path.relpath(p, cwd)
    args = ["simgenotype", "--model", rel(s / "model.dat"), "--mapdir", rel(s / "maps"), "--chroms", "1,2", "--seed", str(case["seed"]), "--ref_vcf", rel(s / "ref.vcf.gz"), "--sample_info", rel(s / "info.tab"), "--out", case["out"]]
    args += ["--pop_field"] if case["pop"] else []
    args += ["--sample_field"] if case["sample"] else []
    env = dict(os.environ, PYTHONPATH=str(C.REPO), PYTHONDONTWRITEBYTECODE="1")
    r = subprocess.run([sys.executable, "-m", "haptools"] + args, cwd=cwd, env=env, capture_output=True, text=True, timeout=300)
    obs = {"exit": r.returncode, "stderr_tail": r.stderr[-300:] if r.returncode else ""}
    outp = cwd / case["out"]
    obs["out_exists"] = outp.exists()
    bps = sorted(p for p in cwd.rglob("*.bp"))
    obs["bp_files"] = [str(p.relative_to(cwd)) for p in bps]
    obs["cli_bp"] = open(bps[0]).read() if len(bps) == 1 else None
    obs["cli_vcf"] = C.guarded(_read_sim_vcf, outp) if outp.exists() else None
    # the Python entry points, same inputs and seed
    def api():
        popsize = sg.validate_params(str(s / "model.dat"), str(s / "maps"), ["1", "2"], 10000, str(s / "ref.vcf.gz"), str(s / "info.tab"), False, None, False)
        n, pd, bp = sg.simulate_gt(str(s / "model.dat"), str(s / "maps"), ["1", "2"], None, popsize, SD.silent_log(), case["seed"])
        bp = sg.write_breakpoints(n, pd, bp, str(d / "api"), SD.silent_log())
        sg.output_vcf(bp, ["1", "2"], str(s / "model.dat"), str(s / "ref.vcf.gz"), str(s / "info.tab"), None, case["pop"], case["sample"], False, str(d / "api.vcf"), SD.silent_log())

    e = C.guarded(api)
    obs["api_error"] = e if isinstance(e, dict) and "error" in e else None
    obs["api_bp"] = open(d / "api.bp").read() if (d / "api.bp").exists() else None
    obs["api_vcf"] = C.guarded(_read_sim_vcf, d / "api.vcf") if (d / "api.vcf").exists() else None
    return obs


def oracle_simgt_shell(case, obs):
    if "error" in obs:
        return f"harness could not run the case: {obs}"
    what = f"`haptools simgenotype --out {case['out']!r}{' --pop_field' if case['pop'] else ''}{' --sample_field' if case['sample'] else ''}` typed in a working directory (relative input paths)"
    if obs["api_error"]:
        return None if obs["exit"] != 0 else f"{what} exited with 0 although the Python entry points fail: {obs['api_error']}"
    if obs["exit"] != 0:
        return f"{what} exited with status {obs['exit']} although the same simulation succeeds through the Python entry points: {obs['stderr_tail']}"
    if not obs["out_exists"]:
        return f"{what} exited with 0 but wrote no file of that name (breakpoint files: {obs['bp_files']})"
    if obs["cli_bp"] is None or obs["cli_bp"] != obs["api_bp"]:
        return f"{what}: the breakpoints written ({obs['bp_files']}) differ from those of the Python entry points with the same seed"
    if obs["cli_vcf"] != obs["api_vcf"]:
        a, b = obs["cli_vcf"], obs["api_vcf"]
        hint = ""
        if isinstance(a, dict) and isinstance(b, dict) and a.get("records") and b.get("records"):
            hint = f" (first record: {str(a['records'][0])[:200]} vs {str(b['records'][0])[:200]})"
        return f"{what}: the genotypes / POP / SAMPLE annotations written differ from what output_vcf writes for the same breakpoints and flags{hint}"
    return None
