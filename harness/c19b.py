"""C19, the command line as a function: click's option tables read off `haptools/__main__.py`, argument vectors in
random mixtures of short and long spellings, and the list files of --samples-file / --ids-file, against the Lean
model `CliParse` (driver ops `cliParse`, `splitLines`)."""
from __future__ import annotations

import importlib
import inspect
from pathlib import Path

from . import common as C

_dir = None
ENTRY = {
    "transform": ("haptools.transform", "transform_haps", "haplotype_ids"),
    "simphenotype": ("haptools.sim_phenotype", "simulate_pt", "haplotype_ids"),
    "ld": ("haptools.ld", "calc_ld", "ids"),
}
ORDERED_IDS = {"ld"}  # ld hands its IDs over as a tuple (order kept), the others as a set
COMMANDS = ["transform", "simphenotype", "ld", "index", "clump", "simgenotype", "karyogram"]

# texts of list files: (name, bytes)
LIST_FILES = [
    ("l_plain.txt", "s0\ns3\ntwin A\n"),
    ("l_nofinal.txt", "s1\nhapB\nnosuchID"),
    ("l_crlf.txt", "s2\r\ns4\r\nhapA\r\n"),
    ("l_dups.txt", "hapA\nhapA\n\nhapC\nhapA\n"),
    ("l_empty.txt", ""),
    ("l_blank.txt", "\n"),
    ("l_exotic.txt", "a\x0cb\ns0\nc d\ne\x85f\ng\x1ch\x1di\x1ej\nk\x0bl\n"),
    ("l_cr.txt", "s0\rs1\r\rs2"),
    ("l_spaces.txt", " s0\ns1 \n\ttwin A\n"),
]


def setup():
    global _dir
    _dir = C.scratch_dir("c19b")
    for name, text in LIST_FILES:
        with open(_dir / name, "w", newline="", encoding="utf-8") as f:
            f.write(text)
    # something that exists for every Path(exists=True) / positional
    for name in ("g.vcf", "h.hap", "stats.txt", "k.bp"):
        (_dir / name).write_text("x\n")
    (_dir / "maps").mkdir()
    return _dir


def teardown(_):
    C.rm_tree(_dir)


def _cmd(name):
    from haptools.__main__ import main

    return main.commands[name]


def table_of(name):
    """click's declarations → rows of the Lean table (+ the positional parameters in order)"""
    import click

    cmd = _cmd(name)
    rows, pos = [], []
    for p in cmd.params:
        if isinstance(p, click.Option):
            kind = "flag" if p.is_flag else ("multi" if p.multiple else "value")
            rows.append({"param": p.name, "kind": kind, "on": list(p.opts), "off": list(p.secondary_opts)})
        else:
            pos.append(p.name)
    ctx = click.Context(cmd)
    rows.append({"param": "help", "kind": "flag", "on": list(cmd.get_help_option_names(ctx)), "off": []})
    return rows, pos


def _value_for(rng, p):
    import click

    t = p.type
    tn = type(t).__name__
    if tn == "IntRange":
        return str(rng.randint(1, 9))
    if tn == "IntParamType":
        return str(rng.choice([0, 1, 3, 17, 42, -5, 2**31]))
    if tn == "FloatRange":
        return rng.choice(["0.25", "0.5", "0.75"])
    if tn == "FloatParamType":
        return rng.choice(["0.05", "1e-3", "0.5", "2", "-0.5", "250"])
    if isinstance(t, click.Choice):
        return rng.choice(list(t.choices))
    if tn == "File":
        return str(_dir / rng.choice(LIST_FILES)[0])
    if tn == "Path":
        if getattr(t, "exists", False):
            if not getattr(t, "file_okay", True):
                return str(_dir / "maps")
            return str(_dir / rng.choice(["g.vcf", "h.hap", "stats.txt"]))
        return str(_dir / rng.choice(["out.a", "out.b"]))
    # plain strings: anything goes, a value is never taken for an option
    return rng.choice(["x", "1:10-20", "-weird", "--sample", "a b", "Sample_1", "hapA", "twin A", "-s", "--", "snpB", ""])


def _pos_value(rng, p):
    tn = type(p.type).__name__
    if tn == "Path":
        return str(_dir / rng.choice(["g.vcf", "h.hap"]))
    return rng.choice(["hapA", "snpB", "-", "x y"])


def gen_parse(rng, tier):
    import click

    n = 160 if tier == "quick" else 3000
    for t in range(n):
        name = COMMANDS[t % len(COMMANDS)]
        cmd = _cmd(name)
        opts = [p for p in cmd.params if isinstance(p, click.Option)]
        args_ = [p for p in cmd.params if isinstance(p, click.Argument)]
        items = []  # [kind, param, token, value]
        for p in opts:
            if p.required or rng.random() < 0.35:
                reps = 1
                if p.multiple:
                    reps = rng.randint(1, 4)
                elif rng.random() < 0.15:
                    reps = 2  # a single-valued option given twice: the last one wins
                for _ in range(reps):
                    if p.is_flag:
                        tok = rng.choice(list(p.opts) + list(p.secondary_opts))
                        items.append(["flag", p.name, tok, None])
                    else:
                        items.append(["opt", p.name, rng.choice(list(p.opts)), _value_for(rng, p)])
        # sample selection in both forms at once is a usage error of the command, not of the parser: keep it rare
        if name in ENTRY and rng.random() < 0.8:
            has_file = any(i[1] == "samples_file" for i in items)
            if has_file:
                items = [i for i in items if i[1] != "samples"]
        rng.shuffle(items)
        for p in args_:
            items.insert(rng.randrange(len(items) + 1), ["pos", p.name, None, _pos_value(rng, p)])
        # positionals must keep their declared order
        pvals = [i for i in items if i[0] == "pos"]
        order = [p.name for p in args_]
        pvals.sort(key=lambda i: order.index(i[1]))
        it = iter(pvals)
        items = [next(it) if i[0] == "pos" else i for i in items]
        bad = None
        r = rng.random()
        if r < 0.08:
            bad = ["unknown", rng.choice(["--nosuch", "-Z", "--sampl", "--sample-file", "-q", "--Region"]), rng.randrange(len(items) + 1)]
        elif r < 0.14:
            cands = [p for p in opts if not p.is_flag]
            p = rng.choice(cands)
            bad = ["truncated", rng.choice(list(p.opts)), p.name]
        elif r < 0.18 and args_:
            bad = ["extra_positional", "one-too-many", None]
        elif r < 0.22 and args_:
            bad = ["missing_positional", None, None]
        yield {"cmd": name, "items": items, "bad": bad}


def _args_of(case):
    args = []
    items = list(case["items"])
    bad = case["bad"]
    if bad and bad[0] == "missing_positional":
        last = max(i for i, it in enumerate(items) if it[0] == "pos")
        del items[last]
    for k, (kind, _, tok, v) in enumerate(items):
        if bad and bad[0] == "unknown" and bad[2] == k:
            args.append(bad[1])
        if kind == "opt":
            args += [tok, v]
        elif kind == "flag":
            args.append(tok)
        else:
            args.append(v)
    if bad and bad[0] == "unknown" and bad[2] >= len(items):
        args.append(bad[1])
    if bad and bad[0] == "truncated":
        args.append(bad[1])
    if bad and bad[0] == "extra_positional":
        args.append(bad[1])
    return args


def _canon(v):
    if v is None or isinstance(v, (bool, int, str)):
        return v
    if isinstance(v, float):
        return repr(float(v))
    if isinstance(v, Path):
        return str(v)
    if isinstance(v, (set, frozenset)):
        return {"set": sorted(map(str, v))}
    if isinstance(v, (list, tuple)):
        return {"seq": [str(x) for x in v]}
    if hasattr(v, "name"):
        return str(v.name)  # an (unopened or opened) file
    return repr(v)


def _defaults(name):
    """what the parameters are when only the required ones are given"""
    import click

    cmd = _cmd(name)
    args = []
    for p in cmd.params:
        if isinstance(p, click.Argument):
            args.append(str(_dir / "g.vcf"))
        elif p.required:
            args += [p.opts[0], str(_dir / "g.vcf") if type(p.type).__name__ != "Path" or getattr(p.type, "file_okay", True) else str(_dir / "maps")]
    ctx = cmd.make_context(name, args)
    try:
        return {k: _canon(v) for k, v in ctx.params.items()}
    finally:
        ctx.close()


def impl_parse(case):
    import click
    from click.testing import CliRunner
    from haptools.__main__ import main

    name = case["cmd"]
    cmd = _cmd(name)
    args = _args_of(case)
    obs = {"error": None}
    try:
        ctx = cmd.make_context(name, list(args))
    except click.NoSuchOption as e:
        return {"error": ["no_such_option", e.option_name]}
    except click.BadOptionUsage as e:
        tok = e.option_name
        rows, _ = table_of(name)
        par = [r["param"] for r in rows if tok in r["on"] + r["off"]]
        return {"error": ["missing_value", par[0] if par else tok]}
    except click.MissingParameter as e:
        return {"error": ["missing_parameter", e.param.name if e.param else None]}
    except click.UsageError as e:
        return {"error": ["usage", str(e.message)[:60]]}
    try:
        obs["params"] = {k: _canon(v) for k, v in ctx.params.items()}
    finally:
        ctx.close()
    if name in ENTRY:
        # what the entry point receives (it is replaced by a recorder while the command runs)
        modname, fname, idname = ENTRY[name]
        mod = importlib.import_module(modname)
        orig = getattr(mod, fname)
        calls = []

        def rec(*a, **k):
            b = inspect.signature(orig).bind(*a, **k)
            b.apply_defaults()
            calls.append(dict(b.arguments))

        setattr(mod, fname, rec)
        try:
            r = CliRunner().invoke(main, [name] + args, catch_exceptions=True)
        finally:
            setattr(mod, fname, orig)
        if r.exit_code == 2 and not calls:
            obs["samples"] = obs["ids"] = "usage_error"
        elif len(calls) != 1:
            obs["samples"] = obs["ids"] = f"entry point called {len(calls)} times, exit {r.exit_code} ({r.exception!r})"
        else:
            obs["samples"] = _canon(calls[0]["samples"])
            ids_ = calls[0][idname]
            # ld lists every requested ID once, in the order of first mention: repeats may already be dropped at this boundary
            obs["ids"] = _canon(tuple(dict.fromkeys(ids_)) if name in ORDERED_IDS and ids_ is not None else ids_)
            # every other parameter reaches the entry point as parsed
            glue = {}
            for k, v in calls[0].items():
                if k in ("samples", idname, "log") or k not in ctx.params:
                    continue
                if _canon(v) != obs["params"].get(k):
                    glue[k] = [_canon(v), obs["params"].get(k)]
            obs["glue"] = glue
    return obs


def _conv(p, v):
    tn = type(p.type).__name__
    if tn in ("IntRange", "IntParamType"):
        return int(v)
    if tn in ("FloatRange", "FloatParamType"):
        return repr(float(v))
    return v


def model_req_parse(case):
    rows, _ = table_of(case["cmd"])
    files = [[str(_dir / n), t] for n, t in LIST_FILES]
    return {"op": "cliParse", "table": rows, "args": _args_of(case), "files": files}


def model_obs_parse(case, resp):
    import click

    name = case["cmd"]
    if not resp.get("tableOK"):
        return {"error": ["table_ambiguous"]}
    if resp["error"] is not None:
        return {"error": resp["error"]}
    cmd = _cmd(name)
    _, posnames = table_of(name)
    if len(resp["pos"]) < len(posnames):
        return {"error": ["missing_parameter", posnames[len(resp["pos"])]]}
    if len(resp["pos"]) > len(posnames):
        return {"error": ["usage", "Got unexpected extra argument"]}
    dflt = _defaults(name)
    byname = {p.name: p for p in cmd.params}
    params = {}
    for pname, v in resp["params"]:
        if pname == "help":
            continue
        p = byname[pname]
        if p.is_flag:
            params[pname] = dflt[pname] if v is None else v
        elif p.multiple:
            params[pname] = {"seq": list(v)} if v else dflt[pname]
        else:
            params[pname] = dflt[pname] if v is None else _conv(p, v)
    for pn, v in zip(posnames, resp["pos"]):
        params[pn] = v
    obs = {"error": None, "params": params}
    if name in ENTRY:
        if resp["samples"] == "usage_error":
            obs["samples"] = obs["ids"] = "usage_error"
        else:
            s, i = resp["samples"], resp["ids"]
            obs["samples"] = None if s is None else {"set": sorted(set(s))}
            obs["ids"] = None if i is None else ({"seq": list(dict.fromkeys(i))} if name in ORDERED_IDS else {"set": sorted(set(i))})
            obs["glue"] = {}
    return obs


def equal_parse(a, b):
    a, b = dict(a), dict(b)
    if a.get("error") and b.get("error"):
        ea, eb = a["error"], b["error"]
        if ea[0] != eb[0]:
            return False
        return ea[0] in ("usage",) or ea[1] == eb[1]
    return C.canon(a) == C.canon(b)


def oracle_parse(case, obs):
    """the meaning of the items, computed without the model: the last value of a single-valued option, all values of a
    repeatable one in order, the last spelling of a flag"""
    import click

    if case["bad"]:
        kind = case["bad"][0]
        want = {"unknown": "no_such_option", "truncated": "missing_value", "extra_positional": "usage", "missing_positional": "missing_parameter"}[kind]
        if not obs.get("error") or obs["error"][0] != want:
            return f"{case['cmd']} {_args_of(case)}: expected the usage error {want}, observed {obs.get('error') or 'a successful parse'}"
        return None
    if obs.get("error"):
        return f"{case['cmd']} {_args_of(case)}: a well-formed command line was rejected: {obs['error']}"
    name = case["cmd"]
    cmd = _cmd(name)
    byname = {p.name: p for p in cmd.params}
    dflt = _defaults(name)
    want = dict(dflt)
    multi = {}
    for kind, pname, tok, v in case["items"]:
        p = byname[pname]
        if kind == "pos":
            want[pname] = v
        elif kind == "flag":
            want[pname] = tok in p.opts
        elif p.multiple:
            multi.setdefault(pname, []).append(v)
        else:
            want[pname] = _conv(p, v)
    for k, l in multi.items():
        want[k] = {"seq": l}
    for k, w in want.items():
        if obs["params"].get(k) != w:
            return f"{name} {_args_of(case)}: parameter {k} is {obs['params'].get(k)!r}, the options given mean {w!r}"
    if name in ENTRY:
        if obs.get("glue"):
            return f"{name} {_args_of(case)}: the entry point does not receive the parsed parameters: {obs['glue']}"
        texts = {str(_dir / n): t for n, t in LIST_FILES}

        def lines(path):
            # one name per line; "\r\n" and "\r" end a line as well (universal newlines), nothing else does
            t = texts[path].replace("\r\n", "\n").replace("\r", "\n")
            ls = t.split("\n")
            if ls and ls[-1] == "":
                ls.pop()
            return ls

        sf, idf = want.get("samples_file"), want.get("ids_file")
        smp = (multi.get("samples") or None)
        if sf is not None and smp:
            if obs["samples"] != "usage_error":
                return f"{name} {_args_of(case)}: both --sample and --samples-file were given, yet no usage error"
            return None
        if obs["samples"] == "usage_error":
            return f"{name} {_args_of(case)}: rejected as a usage error although only one form of sample selection was given"
        ws = lines(sf) if sf is not None else smp
        wi = lines(idf) if idf is not None else (multi.get("ids") or None)
        ws = None if ws is None else {"set": sorted(set(ws))}
        wi = None if wi is None else ({"seq": list(dict.fromkeys(wi))} if name in ORDERED_IDS else {"set": sorted(set(wi))})
        if obs["samples"] != ws:
            return f"{name} {_args_of(case)}: the entry point receives the samples {obs['samples']!r}, the options given mean {ws!r}"
        if obs["ids"] != wi:
            return f"{name} {_args_of(case)}: the entry point receives the IDs {obs['ids']!r}, the options given mean {wi!r}"
    return None


def describe_parse(case, obs):
    tags = [case["cmd"]]
    if case["bad"]:
        tags.append("malformed:" + case["bad"][0])
    toks = [i[2] for i in case["items"] if i[2]]
    if any(len(t) == 2 for t in toks):
        tags.append("short-spelling")
    if any(len(t) > 2 for t in toks):
        tags.append("long-spelling")
    names = [i[1] for i in case["items"] if i[0] == "opt"]
    if len(set(names)) < len(names):
        tags.append("repeated-option")
    if any(i[0] == "opt" and i[3].startswith("-") for i in case["items"]):
        tags.append("value-looks-like-option")
    if any(i[1] in ("samples_file", "ids_file") for i in case["items"]):
        tags.append("list-file")
    return tags


def variants_parse(case):
    # drop one item at a time (required options and positionals stay)
    import click

    cmd = _cmd(case["cmd"])
    req = {p.name for p in cmd.params if isinstance(p, click.Argument) or p.required}
    for k, it in enumerate(case["items"]):
        if it[1] in req:
            continue
        yield dict(case, items=case["items"][:k] + case["items"][k + 1 :])


# ---------------------------------------------------------------------------------------------------------------------
# list files
# ---------------------------------------------------------------------------------------------------------------------

ALPHABET = ["a", "b", "s0", "hapA", " ", "\t", "\n", "\n", "\n", "\r\n", "\r", "\x0b", "\x0c", "\x1c", "\x1d", "\x1e", "\x85", " ", " ", "é", "#"]


def gen_lines(rng, tier):
    n = 120 if tier == "quick" else 2500
    for name, text in LIST_FILES:
        yield {"text": text, "via": "ld"}
        yield {"text": text, "via": "transform"}
    for t in range(n):
        k = rng.randint(0, 12)
        text = "".join(rng.choice(ALPHABET) for _ in range(k))
        if rng.random() < 0.5 and text and not text.endswith("\n"):
            text += "\n"
        yield {"text": text, "via": rng.choice(["ld", "ld", "transform", "simphenotype"])}


def impl_lines(case):
    from click.testing import CliRunner
    from haptools.__main__ import main

    f = _dir / "case.txt"
    with open(f, "w", newline="", encoding="utf-8") as fh:
        fh.write(case["text"])
    via = case["via"]
    modname, fname, idname = ENTRY[via]
    mod = importlib.import_module(modname)
    orig = getattr(mod, fname)
    calls = []

    def rec(*a, **k):
        b = inspect.signature(orig).bind(*a, **k)
        b.apply_defaults()
        calls.append(dict(b.arguments))

    pos = {"transform": [_dir / "g.vcf", _dir / "h.hap"], "simphenotype": [_dir / "g.vcf", _dir / "h.hap"], "ld": ["hapA", _dir / "g.vcf", _dir / "h.hap"]}[via]
    setattr(mod, fname, rec)
    try:
        r = CliRunner().invoke(main, [via, "--ids-file", str(f), "-S", str(f)] + [str(p) for p in pos], catch_exceptions=True)
    finally:
        setattr(mod, fname, orig)
    if len(calls) != 1:
        return {"error": f"entry point called {len(calls)} times, exit {r.exit_code} ({r.exception!r})"}
    ids = calls[0][idname]
    smp = calls[0]["samples"]
    return {"ids": list(dict.fromkeys(ids)) if via == "ld" else sorted(ids), "samples": sorted(smp), "py": case["text"].splitlines()}


def model_req_lines(case):
    return {"op": "splitLines", "text": case["text"]}


def model_obs_lines(case, resp):
    ls = resp["lines"]
    return {"ids": list(dict.fromkeys(ls)) if case["via"] == "ld" else sorted(set(ls)), "samples": sorted(set(ls)), "py": resp["py"]}


def oracle_lines(case, obs):
    if "error" in obs:
        return f"list file {case['text']!r}: {obs['error']}"
    t = case["text"].replace("\r\n", "\n").replace("\r", "\n")
    ls = t.split("\n")
    if ls and ls[-1] == "":
        ls.pop()
    want = list(dict.fromkeys(ls)) if case["via"] == "ld" else sorted(set(ls))
    if obs["ids"] != want:
        return f"{case['via']} --ids-file with the text {case['text']!r} hands over {obs['ids']!r}; one name per line is {want!r}, which is what repeating --id with these names hands over"
    if obs["samples"] != sorted(set(ls)):
        return f"{case['via']} --samples-file with the text {case['text']!r} hands over {obs['samples']!r}; one name per line is {sorted(set(ls))!r}"
    return None


def describe_lines(case, obs):
    t = case["text"]
    tags = [case["via"]]
    if t == "":
        tags.append("empty-file")
    if "\r" in t:
        tags.append("carriage-return")
    if any(c in t for c in "\x0b\x0c\x1c\x1d\x1e\x85  "):
        tags.append("other-separator-in-name")
    if t and not t.endswith("\n"):
        tags.append("no-final-newline")
    if "\n\n" in t or t.startswith("\n"):
        tags.append("empty-name")
    return tags
