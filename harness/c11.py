"""C11 — index keeps every record; indexed queries equal filtering a full read."""
from __future__ import annotations

import gzip
from pathlib import Path

from . import common as C
from . import simdata as SD
from .run import Check, Section

_dir = None
CONTIGS = ["1", "2", "chr3", "X", "9", "10", "11", "21"]  # incl. numeric names whose string order and numeric order differ


def setup():
    global _dir
    _dir = C.scratch_dir("c11")
    return _dir


def teardown(_):
    C.rm_tree(_dir)


def gen(rng, tier):
    n = 150 if tier == "quick" else 3000
    grid = [10, 20, 30, 40, 50, 60]
    for t in range(n):
        contigs = rng.sample(CONTIGS, rng.randint(1, 4))
        recs = []
        for i in range(rng.randint(1, 9)):
            a = rng.choice(grid)
            b = rng.choice([x for x in grid if x >= a])
            typ = "R" if rng.random() < 0.3 else "H"
            vs = []
            if typ == "H":
                for _ in range(rng.choice([0, 1, 1, 2, 3])):
                    st = rng.randint(a, b)
                    if t % 5 == 3 and rng.random() < 0.5:
                        # the H line's start and end are what the file says, not a summary of its V lines: a variant may lie
                        # before the start or beyond the end (tests/data/example.hap.gz has such haplotypes) and still belongs to it
                        st = rng.choice([max(1, a - rng.randint(2, 9)), b + rng.randint(1, 30)])
                    vs.append([st, st + 1, f"rs{rng.randint(1, 9)}", rng.choice(["A", "C", "G"])])
            ch = rng.choice(contigs)
            # IDs that sort between contig names ('1.hap0' lies between contigs '1' and '2'): with `sort -k2,4`, the
            # order the documentation recommends, V lines are then interleaved with H lines of later contigs
            rid = f"{'rep' if typ == 'R' else 'hap'}{i}" if t % 2 else f"{ch}.{'rep' if typ == 'R' else 'hap'}{i}"
            recs.append({"t": typ, "chrom": ch, "start": a, "end": b, "id": rid, "vars": vs})
        rng.shuffle(recs)
        # queries: every shape, bounds on and one off record boundaries, contigs present in the file
        present = sorted({r["chrom"] for r in recs})
        ids_all = [r["id"] for r in recs]
        queries = []
        for _ in range(14):
            c = rng.choice(present)
            shape = rng.choice(["c", "c:a-", "c:a-b", "c:a-b", "ids", "c:a-b+ids"])
            a = rng.choice(grid + [x - 1 for x in grid] + [x + 1 for x in grid])
            b = rng.choice([x for x in grid + [x + 1 for x in grid] + [x - 1 for x in grid] if x >= a] or [a])
            ids = sorted(rng.sample(ids_all, rng.randint(1, len(ids_all)))) if "ids" in shape else None
            if ids is not None and rng.random() < 0.2:
                ids.append("nosuch")
            q = {"c": None, "lo": None, "hi": None, "ids": ids}
            if shape != "ids":
                q["c"] = c
                if shape.startswith("c:a-b"):
                    q["lo"], q["hi"] = a, b
                elif shape == "c:a-":
                    q["lo"] = a
            queries.append(q)
        yield {"recs": recs, "queries": queries, "sort": rng.random() < 0.7, "gz_input": rng.random() < 0.25, "explicit_output": rng.random() < 0.4, "line_order": rng.choice(["grouped", "interleaved", "v_first", "shuffled"]), "nosort_layout": rng.choice(["hr_then_v", "k2"])}


def gen_large(rng, tier):
    """files longer than any plausible write batch (thousands of lines), shuffled, indexed with sorting on"""
    for t in range(1 if tier == "quick" else 5):
        grid = list(range(10, 4000, 10))
        contigs = rng.sample(CONTIGS, 3)
        recs = []
        for i in range(rng.randint(2000, 2400)):
            a = rng.choice(grid)
            b = a + rng.choice([0, 10, 50, 200])
            typ = "R" if rng.random() < 0.2 else "H"
            vs = []
            if typ == "H":
                for _ in range(rng.choice([1, 2, 2, 3])):
                    st = rng.randint(a, b)
                    vs.append([st, st + 1, f"rs{rng.randint(1, 99)}", rng.choice(["A", "C", "G"])])
            recs.append({"t": typ, "chrom": rng.choice(contigs), "start": a, "end": b, "id": f"{'rep' if typ == 'R' else 'hap'}{i:04d}", "vars": vs})
        rng.shuffle(recs)
        ids_all = [r["id"] for r in recs]
        queries = []
        for shape in ["c", "c:a-b", "ids", "c:a-b+ids", "ids", "c:a-b"]:
            a = rng.choice(grid)
            q = {"c": None, "lo": None, "hi": None, "ids": sorted(rng.sample(ids_all, rng.randint(1, 6))) if "ids" in shape else None}
            if shape != "ids":
                q["c"] = rng.choice(contigs)
                if shape.startswith("c:a-b"):
                    q["lo"], q["hi"] = a, a + rng.choice([100, 500, 2000])
            queries.append(q)
        yield {"recs": recs, "queries": queries, "sort": True, "gz_input": t % 2 == 1, "explicit_output": t % 3 == 0, "line_order": rng.choice(["grouped", "interleaved"]), "nosort_layout": "hr_then_v"}


def region_str(q):
    if q["c"] is None:
        return None
    if q["lo"] is None:
        return q["c"]
    if q["hi"] is None:
        return f"{q['c']}:{q['lo']}-"
    return f"{q['c']}:{q['lo']}-{q['hi']}"


def write_hap(case, path, sorted_for_tabix):
    recs = case["recs"]
    lines = []
    if sorted_for_tabix and case["nosort_layout"] == "k2":
        # `sort -k2,4`: every line by (sequence-name column, start, end) – H/R and V lines interleave by name
        for r in recs:
            lines.append("\t".join([r["t"], r["chrom"], str(r["start"]), str(r["end"]), r["id"]]))
            for v in r["vars"]:
                lines.append("\t".join(["V", r["id"], str(v[0]), str(v[1]), v[2], v[3]]))
        lines.sort(key=lambda l: (l.split("\t")[1], int(l.split("\t")[2]), int(l.split("\t")[3])))
    elif sorted_for_tabix:
        # an input that tabix accepts as it is (needed with --no-sort): H/R by (chrom, start), then V grouped by hap
        hr = sorted(recs, key=lambda r: (r["chrom"], r["start"], r["end"], r["id"]))
        for r in hr:
            lines.append("\t".join([r["t"], r["chrom"], str(r["start"]), str(r["end"]), r["id"]]))
        for r in sorted(recs, key=lambda r: r["id"]):
            for v in sorted(r["vars"]):
                lines.append("\t".join(["V", r["id"], str(v[0]), str(v[1]), v[2], v[3]]))
    elif case["line_order"] == "grouped":
        for r in recs:
            lines.append("\t".join([r["t"], r["chrom"], str(r["start"]), str(r["end"]), r["id"]]))
        for r in recs:
            for v in r["vars"]:
                lines.append("\t".join(["V", r["id"], str(v[0]), str(v[1]), v[2], v[3]]))
    elif case["line_order"] in ("v_first", "shuffled"):
        # lines may come in any order: every V line ahead of the H lines, or all lines shuffled
        hl = ["\t".join([r["t"], r["chrom"], str(r["start"]), str(r["end"]), r["id"]]) for r in recs]
        vl = ["\t".join(["V", r["id"], str(v[0]), str(v[1]), v[2], v[3]]) for r in recs for v in r["vars"]]
        lines = vl + hl
        if case["line_order"] == "shuffled":
            import random as _r

            _r.Random(C.plumb(case, "shuffle", 2**31)).shuffle(lines)
    else:
        for r in recs:  # each H directly followed by its V lines (V before other H lines)
            lines.append("\t".join([r["t"], r["chrom"], str(r["start"]), str(r["end"]), r["id"]]))
            for v in r["vars"]:
                lines.append("\t".join(["V", r["id"], str(v[0]), str(v[1]), v[2], v[3]]))
    header = "#\tversion\t0.2.0\n# a free comment\n"
    if sorted_for_tabix and C.plumb(case, "extras", 3) == 0:
        # kept as it is (--no-sort), the file may carry extra fields (a simphenotype .hap with its beta; a note that may be empty, so
        # that the line ends in a tab): all of it has to survive, and the queries have to work on it
        header += "#\torderH\tbeta\tnote\n#\torderR\tbeta\n#H\tbeta\t.2f\tEffect size\n#H\tnote\ts\tFree text\n#R\tbeta\t.2f\tEffect size\n"
        lines = [(l + ("\t0.25\t" + ["", "x y", "ok"][k % 3] if l.startswith("H\t") else "\t0.50")) if l[:2] in ("H\t", "R\t") else l for k, l in enumerate(lines)]
    text = C.text_ending(case, "in.hap", header + "\n".join(lines) + "\n")
    if str(path).endswith(".gz"):
        with gzip.open(path, "wt") as f:
            f.write(text)
    else:
        open(path, "w").write(text)
    return text


def snapshot(h):
    from haptools.data import Haplotype

    out = []
    for k, o in h.data.items():
        out.append([k, o.chrom, int(o.start), int(o.end), "H" if isinstance(o, Haplotype) else "R", sorted([int(v.start), int(v.end), v.id, v.allele] for v in getattr(o, "variants", ()))])
    return out


def impl(case):
    import pysam
    from haptools.data import Haplotypes
    from haptools.index import index_haps

    d = _dir / "i"
    C.rm_tree(d)
    d.mkdir(parents=True)
    inp = d / ("in.hap.gz" if case["gz_input"] else "in.hap")
    text = write_hap(case, inp, sorted_for_tabix=not case["sort"])
    before = open(inp, "rb").read()
    # an explicit output may carry any name (the index is <name>.tbi), also one that does not end in .gz or holds a blank
    out = d / ["res.hap.gz", "res.hap.bgz", "res out.hap.gz", "res.sorted.gz"][C.plumb(case, "out-name", 4)] if case["explicit_output"] else None
    if out is not None and C.plumb(case, "stale-out", 3) == 0:
        C.stale_output(out)
    index_haps(inp, sort=case["sort"], output=out, log=SD.silent_log())
    if out is None:
        out = inp if case["gz_input"] else Path(str(inp) + ".gz")
    obs = {"input_untouched": (open(inp, "rb").read() == before) if not (case["gz_input"] and not case["explicit_output"]) else True}
    body = gzip.open(out, "rt").read()
    obs["out_lines"] = sorted(l for l in body.splitlines() if not l.startswith("#"))
    obs["in_lines"] = sorted(l for l in text.splitlines() if not l.startswith("#"))
    obs["bytes_kept_when_unsorted"] = True if case["sort"] else (body == text)
    obs["hr_order"] = [l.split("\t")[4] for l in body.splitlines() if l.startswith(("H\t", "R\t"))]
    try:
        tb = pysam.TabixFile(str(out))
        obs["tabix_contigs"] = sorted(tb.contigs)
        tb.close()
    except Exception as e:  # noqa
        obs["tabix_contigs"] = "error:" + type(e).__name__
    full = Haplotypes(inp, log=SD.silent_log())
    full.read()
    obs["full"] = snapshot(full)
    res = []
    reuse = C.plumb(case, "one-object", 3) == 0
    shared = None
    if reuse:
        # one object for all queries of the case (a loop over chromosomes, say), asked first for a contig the file does not hold –
        # that answer is outside the property, the later ones are not
        shared = Haplotypes(out, log=SD.silent_log())
        C.guarded(lambda: shared.read(region="contigNotInFile:1-1000"))
    for q in case["queries"]:
        h = shared if reuse else Haplotypes(out, log=SD.silent_log())
        r = C.guarded(lambda: (h.read(region=region_str(q), haplotypes=None if q["ids"] is None else set(q["ids"])), snapshot(h))[1])
        res.append(r)
    obs["results"] = res
    return obs


def model_req(case):
    cidx = {c: i for i, c in enumerate(CONTIGS)}
    # file order of the H/R lines in the *indexed* file: sorted by (chrom, start, end, id) when sort=True
    recs = case["recs"]
    order = sorted(recs, key=lambda r: (r["chrom"], r["start"], r["end"], r["id"]))
    if not case["sort"] and case["nosort_layout"] == "k2":
        order = sorted(recs, key=lambda r: (r["chrom"], r["start"], r["end"]))
    ididx = {r["id"]: i for i, r in enumerate(recs)}
    # Haplotypes.sort(): contig names and IDs enter the comparator through their rank in Python's string order
    crank = {c: i for i, c in enumerate(sorted({r["chrom"] for r in recs}))}
    irank = {x: i for i, x in enumerate(sorted(r["id"] for r in recs))}
    sort_req = {"op": "hapSort", "recs": [[crank[r["chrom"]], r["start"], r["end"], irank[r["id"]]] for r in recs]}
    return {"op": "batch", "reqs": [sort_req, _query_req(case, recs, order, cidx, ididx)]}


def _query_req(case, recs, order, cidx, ididx):
    return {"op": "hapQuery", "recs": [[cidx[r["chrom"]], r["start"], r["end"], ididx[r["id"]]] for r in order], "queries": [{"c": None if q["c"] is None else cidx[q["c"]], "lo": q["lo"], "hi": q["hi"], "ids": None if q["ids"] is None else [ididx[i] for i in q["ids"] if i in ididx]} for q in case["queries"]]}


def model_obs(case, resp):
    recs = case["recs"]
    byrank = sorted(r["id"] for r in recs)
    return {"ids": [sorted(recs[i]["id"] for i in r) for r in resp["resps"][1]["results"]], "hr_order": [byrank[i] for i in resp["resps"][0]["order"]] if case["sort"] else None}


def equal(a, b):
    if "error" in a:
        return False
    got = [sorted(x[0] for x in r) if isinstance(r, list) else r for r in a["results"]]
    if b.get("hr_order") is not None and a.get("hr_order") != b["hr_order"]:
        return False  # the H/R lines of the sorted file are not in the order of the modelled sort
    return C.canon(got) == C.canon(b["ids"])


def oracle(case, obs):
    if "error" in obs:
        return f"index_haps / read raised {obs}"
    if not obs["input_untouched"]:
        return "the plain-text input file was modified by haptools index"
    if obs["out_lines"] != obs["in_lines"]:
        return f"records in the indexed file differ from the input: only-in-output {sorted(set(obs['out_lines'])-set(obs['in_lines']))[:3]}, only-in-input {sorted(set(obs['in_lines'])-set(obs['out_lines']))[:3]}"
    if not obs["bytes_kept_when_unsorted"]:
        return "--no-sort did not keep all bytes of the file"
    if isinstance(obs["tabix_contigs"], str):
        return f"pysam cannot open the index: {obs['tabix_contigs']}"
    full = {x[0]: x for x in obs["full"]}
    for q, r in zip(case["queries"], obs["results"]):
        if isinstance(r, dict):
            return f"indexed query region={region_str(q)} ids={q['ids']} raised {r}"
        want = []
        for k, x in full.items():
            if q["c"] is not None and x[1] != q["c"]:
                continue
            if q["lo"] is not None and x[2] < q["lo"]:
                continue
            if q["hi"] is not None and x[3] > q["hi"]:
                continue
            if q["ids"] is not None and k not in q["ids"]:
                continue
            want.append(x)
        if sorted(map(C.jdump, r)) != sorted(map(C.jdump, want)):
            return f"indexed query region={region_str(q)} ids={q['ids']} returned {sorted(x[0] for x in r)} (with variants {[(x[0], len(x[5])) for x in r]}); filtering a full read gives {sorted(x[0] for x in want)} (with variants {[(x[0], len(x[5])) for x in want]})"
    return None


def describe(case, obs):
    tags = ["sort" if case["sort"] else "no-sort", "gz-input" if case["gz_input"] else "plain-input", "explicit-output" if case["explicit_output"] else "default-output", case["line_order"]]
    if any(r["t"] == "H" and not r["vars"] for r in case["recs"]):
        tags.append("hap-without-variants")
    if any(r["start"] == r["end"] for r in case["recs"]):
        tags.append("single-position-record")
    return tags


CHECK = Check(
    id="C11",
    title="index keeps every record; indexed queries equal filtering a full read",
    theorems=["C11.sort_keeps_every_record", "C11.comparator_strict_total", "C11.sorted_records_tabix_ok", "C11.sorted_is_tabix_ok", "C11.region_query_eq_filter", "C11.region_ab_eq_filter", "C11.ids_only_query"],
    sections=[
        Section(
            name="index_and_query",
            theorems=["C11.sorted_is_tabix_ok", "C11.region_query_eq_filter", "C11.ids_only_query"],
            gen=gen,
            impl=impl,
            model_req=model_req,
            model_obs=model_obs,
            equal=equal,
            oracle=oracle,
            describe=describe,
            setup=setup,
            teardown=teardown,
            nontrivial=lambda c, o: C.jdump(c["recs"]) if isinstance(o, dict) and any(isinstance(r, list) and r for r in o.get("results", [])) else None,
            rule="seeded random .hap contents (1-7 haplotypes/repeats on 1-3 contigs incl. prefixed names, coordinates on a grid so that nested, overlapping, equal and single-position records occur, haplotypes with 0-3 variants, IDs distinct from contig names), lines grouped or interleaved (V directly after its H), plain or gzip input, default or explicit --output, sort / --no-sort (the latter on two tabix-compatible orders: H/R then V, and the documented `sort -k2,4` order in which V lines interleave with the H lines of later contigs); 14 queries per file over 'c', 'c:a-', 'c:a-b' with a, b on and one off every grid coordinate, ID subsets (incl. unknown IDs) alone or combined with a region; the indexed read is compared with the Lean fetch+containment model and with filtering a full read of the unindexed file (records and all their variants); the .hap.gz is decompressed and opened with pysam.TabixFile",
        ),
        Section(
            name="large_files",
            theorems=["C11.sort_keeps_every_record", "C11.sorted_records_tabix_ok", "C11.region_ab_eq_filter", "C11.ids_only_query"],
            gen=gen_large,
            impl=impl,
            model_req=model_req,
            model_obs=model_obs,
            equal=equal,
            oracle=oracle,
            describe=describe,
            setup=setup,
            teardown=teardown,
            nontrivial=lambda c, o: C.jdump([len(c["recs"]), c["queries"]]),
            rule="the same comparison on shuffled files of 2000-2400 records (5000-7500 lines: more than any write batch or buffer of a few thousand lines), indexed with sorting on, plain and gzip input; six queries per file",
        ),
    ],
    trusted=["tabix: fetch(c:a-b) returns, in file order, the records on c overlapping [a,b] (1-based inclusive); tabix_index accepts a file whose sequence names are contiguous with non-decreasing starts", "bgzip / gzip"],
    assumptions=["haplotype IDs differ from contig names; region contigs are present in the file (the fallback to a full read on an absent contig is excluded by the property)"],
    anchors=[("haptools/index.py", ["index_haps", "append_suffix"]), ("haptools/data/haplotypes.py", ["Haplotypes._iter_haps", "Haplotypes.__iter__", "Haplotypes.sort", "Haplotypes.to_str", "Haplotype.__lt__", "Variant.__lt__", "Repeat.__lt__"])],
)
